#!/venv/bin/python
"""CLI for the yatiml verification checks.

  run_check.py <Cxx> [--tier quick|thorough]   run a check, rewrite evidence/<Cxx>.json
  run_check.py --replay <file>                 replay a violation file
  run_check.py --selftest determinism [Cxx]    prove the simulator deterministic

Exit codes: 0 = property held on everything explored; 1 = violation (a line
"VIOLATION property=<id> replay=<path>" is printed); 2 = harness error / timeout.
"""
import argparse
import os
import sys

HERE = os.path.dirname(os.path.abspath(__file__))
if HERE not in sys.path:
    sys.path.insert(0, HERE)

# Fix the hash seed so that set/dict-of-str iteration inside the libraries under
# test cannot differ between a run and its replay (self-tests vary it on purpose).
if os.environ.get('PYTHONHASHSEED') is None:
    os.environ['PYTHONHASHSEED'] = '0'
    os.execv(sys.executable, [sys.executable] + sys.argv)

os.environ.setdefault('LC_ALL', 'C.UTF-8')

import sim  # noqa: E402  (sets up VERIF_REPO)


def main():
    ap = argparse.ArgumentParser()
    ap.add_argument('prop', nargs='?')
    ap.add_argument('--tier', default=os.environ.get('VERIF_TIER', 'quick'),
                    choices=['quick', 'thorough'])
    ap.add_argument('--replay')
    ap.add_argument('--selftest')
    ap.add_argument('--workers', type=int, default=None)
    a = ap.parse_args()
    from sim import runner
    if a.replay:
        return runner.replay(a.replay)
    if a.selftest:
        from sim import selftest
        return selftest.main(a.selftest, a.prop)
    if not a.prop:
        ap.error('property id required')
    from sim import engines
    seed = int(os.environ.get('VERIF_SEED', '0') or 0)
    return runner.run_check(engines.BY_PROP[a.prop], a.tier, seed, a.workers)


if __name__ == '__main__':
    try:
        rc = main()
    except SystemExit:
        raise
    except BaseException:
        import traceback
        traceback.print_exc()
        print('HARNESS ERROR (no verdict)')
        rc = 2
    sys.stdout.flush()
    sys.exit(rc)
