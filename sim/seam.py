"""The callback seam: every generated user class calls in here.

`cb(kind, uid)` is the first statement of every generated __init__ and hook.
It (a) appends to the current operation's call trace, (b) is a yield point for
the scheduler, (c) raises the planned exception if the current operation has a
fault planned for this invocation index.

The "current operation" is thread-local: each simulated client thread (and the
main thread, for sequential engines) installs an OpContext around an operation.
Outside of an operation (building values, setup) cb() is a no-op.
"""
import threading

_tls = threading.local()

# set by sim.sched when a scheduler is active: callable(tag) -> None
yield_hook = None


class UserBoom(Exception):
    """A user-defined exception class, as user code would raise."""


class SimCancel(BaseException):
    """Injected asynchronous cancellation (models KeyboardInterrupt at a line)."""


def _unicode_decode_error(*args):
    return UnicodeDecodeError('utf-8', b'\xff', 0, 1, 'injected')


def _syntax_error(*args):
    # an expression-parser style user class; 'odd' location fields as user code may set them
    if not args:
        return SyntaxError()
    if len(args) == 1 and isinstance(args[0], str) and len(args[0]) < 40:
        return SyntaxError(args[0], ('<expr>', 1, 2.5, ['tok', 'en']))
    return SyntaxError(*args)


def _os_error(*args):
    if len(args) == 1 and isinstance(args[0], str):
        return FileNotFoundError(2, args[0], '/no/such/file')
    return OSError(*args)


def _exception_group(*args):
    return ExceptionGroup(str(args[0]) if args else 'group', [ValueError('inner'), KeyError(3)])


class UserRangeError(ValueError):
    """A user exception whose constructor takes two required arguments and whose
    args are not what it was constructed with (cannot be rebuilt as type(e)(msg))."""

    def __init__(self, attribute, value):
        super().__init__('{} out of range: {!r}'.format(attribute, value))
        self.attribute = attribute
        self.value = value


class UserKwError(Exception):
    """Keyword-only constructor; str() is not args[0]."""

    def __init__(self, *, detail):
        super().__init__()
        self.detail = detail

    def __str__(self):
        return 'kw error: {}'.format(self.detail)


def _range_error(*args):
    return UserRangeError('size', args[0] if args else None)


def _kw_error(*args):
    return UserKwError(detail=args[0] if args else None)


def _user_recognition_error(*args):
    # a user's own subclass of yatiml.RecognitionError with a two-argument constructor
    import yatiml
    global _URE
    if _URE is None:
        class UserRecognitionError(yatiml.RecognitionError):
            def __init__(self, attribute, value):
                super().__init__('{} not acceptable: {!r}'.format(attribute, value))
                self.attribute = attribute
                self.value = value
        _URE = UserRecognitionError
    return _URE('size', args[0] if args else None)


_URE = None
_USE = None


def _marked_yaml_error(*args):
    # a user class re-using PyYAML's marked error (context, context_mark, problem, problem_mark)
    import yaml
    return yaml.MarkedYAMLError(None, None, str(args[0]) if args else None, None)


EXC_TABLE = {
    'UserRangeError': _range_error,
    'UserKwError': _kw_error,
    'UserRecognitionError': _user_recognition_error,
    'MarkedYAMLError': _marked_yaml_error,
    'ValueError': ValueError,
    'TypeError': TypeError,
    'KeyError': KeyError,
    'AttributeError': AttributeError,
    'IndexError': IndexError,
    'LookupError': LookupError,
    'ZeroDivisionError': ZeroDivisionError,
    'OSError': OSError,
    'AssertionError': AssertionError,
    'StopIteration': StopIteration,
    'RuntimeError': RuntimeError,
    'NotImplementedError': NotImplementedError,
    'UnicodeDecodeError': _unicode_decode_error,
    'UserBoom': UserBoom,
    'SyntaxError': _syntax_error,
    'FileNotFoundError': _os_error,
    'ExceptionGroup': _exception_group,
}

# argument shapes an exception may be constructed with
ARG_SHAPES = ('msg', 'none', 'int', 'two', 'braces', 'percent', 'unicode', 'long', 'exc', 'chained')


def make_exc(fault):
    """Build the exception object described by a fault record.

    fault = {'exc': name, 'args': shape}
    """
    name = fault['exc']
    shape = fault.get('args', 'msg')
    if shape == 'msg':
        args = ('injected failure',)
    elif shape == 'none':
        args = ()
    elif shape == 'int':
        args = (42,)
    elif shape == 'two':
        args = ('injected', 'failure')
    elif shape == 'braces':
        args = ('injected {failure} {0} %s',)
    elif shape == 'percent':
        args = ('100% injected %s %d %(name)s',)
    elif shape == 'unicode':
        args = ('injecté \u2028 \U0001f600 \x00 end',)
    elif shape == 'long':
        args = ('injected ' + 'x' * 20000,)
    elif shape == 'exc':
        args = (ValueError('inner failure'),)       # wraps a caught exception
    elif shape == 'chained':
        args = ('injected failure',)
    else:
        raise ValueError(shape)
    if name == 'SeasoningError':
        import yatiml
        return yatiml.SeasoningError(*args)
    if name == 'UserSeasoningError':
        # the user's own subclass of the protocol exception, two-argument constructor
        import yatiml
        global _USE
        if _USE is None:
            class UserSeasoningError(yatiml.SeasoningError):
                def __init__(self, attribute, value):
                    super().__init__('{}: {!r}'.format(attribute, value))
                    self.attribute = attribute
            _USE = UserSeasoningError
        return _USE('size', args[0] if args else None)
    if name == 'RecognitionError':
        import yatiml
        return yatiml.RecognitionError(*args)
    exc = EXC_TABLE[name](*args)
    if shape == 'chained':
        exc.__cause__ = KeyError('root cause')
        exc.__context__ = exc.__cause__
    return exc


class OpContext:
    """Per-operation record: call trace, invocation counter, planned faults."""
    __slots__ = ('trace', 'n', 'faults', 'fired', 'kinds_count', 'nested')

    def __init__(self, faults=None):
        # nested: {invocation index: zero-argument callable} - user code that, inside its
        # __init__ / hook, calls another load or dump function (re-entrant use)
        self.nested = None
        self.trace = []
        self.n = 0
        # faults: {invocation index (int): fault record}
        self.faults = faults or {}
        self.fired = []
        self.kinds_count = {}


def current():
    return getattr(_tls, 'ctx', None)


def install(ctx):
    _tls.ctx = ctx


def uninstall():
    _tls.ctx = None


def cb(kind, uid):
    ctx = getattr(_tls, 'ctx', None)
    if ctx is None:
        return
    i = ctx.n
    ctx.n = i + 1
    ctx.trace.append((kind, uid))
    hook = yield_hook
    if hook is not None:
        hook('cb')
    if ctx.nested:
        nest = ctx.nested.pop(i, None)
        if nest is not None:
            nest()
    f = ctx.faults.get(i)
    if f is not None:
        # a fault record may restrict itself to a site kind; if the kind at
        # this index is not the planned one the fault is not delivered
        want = f.get('kind')
        if want is None or want == kind:
            ctx.fired.append((i, kind, uid, f['exc'], f.get('args', 'msg')))
            raise make_exc(f)
