"""Executing single yatiml operations and recording canonical outcomes."""
import collections
import io

from sim import canon, seam
from sim.universe import GEN_PREFIX

FUNCTION_KINDS = ('load', 'dumps', 'dump', 'dumps_json', 'dump_json')


def make_function(ns, kind, root_t=None, order=None, only=None):
    import yatiml
    classes = ns.registered(order)
    if only is not None:
        # a function over a subset of the spec's classes
        classes = [c for c in classes if c.__name__ in only]
    if kind == 'load':
        if root_t is None:
            return yatiml.load_function()
        return yatiml.load_function(ns.type_of(root_t), *classes)
    return getattr(yatiml, kind + '_function')(*classes)


def callback_frames(tb):
    """Whether the traceback passes through generated user-class code."""
    while tb is not None:
        if tb.tb_frame.f_code.co_filename.startswith(GEN_PREFIX):
            return True
        tb = tb.tb_next
    return False


def from_user_code(e):
    """Whether e, or an exception it replaced while being handled, came out of user code."""
    seen = 0
    while e is not None and seen < 8:
        if callback_frames(e.__traceback__):
            return True
        e = e.__cause__ or e.__context__
        seen += 1
    return False


def simple_source(doc, kind):
    if kind == 'str':
        return doc
    if kind == 'stringio':
        return io.StringIO(doc)
    if kind == 'bytesio':
        return io.BytesIO(doc.encode('utf-8'))
    raise ValueError(kind)


def use_result(v, depth=0, seen=None):
    """What a caller does with a loaded value: it owns it and changes it in place.  If a
    later call hands out an object that an earlier call already returned, the change shows."""
    if seen is None:
        seen = set()
    if depth > 6 or id(v) in seen:
        return
    seen.add(id(v))
    if isinstance(v, list):
        for x in list(v):
            use_result(x, depth + 1, seen)
        v.append('<used by the caller>')
    elif isinstance(v, dict):
        for x in list(v.values()):
            use_result(x, depth + 1, seen)
        v['<used by the caller>'] = True
    elif isinstance(v, collections.UserString):
        # (a UserString is mutable: its owner may edit the text)
        v.data = v.data + '<edited by the caller>'
    elif getattr(type(v), '_sim_uid', None) is not None and hasattr(v, '__dict__') \
            and not isinstance(v, (str, bytes)):
        import enum
        if isinstance(v, enum.Enum):
            return
        for x in list(vars(v).values()):
            use_result(x, depth + 1, seen)
        try:
            v.used_by_the_caller = True
        except Exception:
            pass


def call(thunk, faults=None, norm=None, retain=None, graph=False, nested=None, after=None):
    """Run thunk() inside a fresh OpContext; returns (outcome dict, ctx).

    outcome: {'status': 'ok', 'value': canon} | {'status': 'exc', 'exc': qualname,
              'msg': tokens, 'from_callback': bool}, always with 'trace'.
    BaseExceptions that are not Exceptions (SimCancel) propagate to the caller
    after the context has been uninstalled.
    """
    ctx = seam.OpContext(faults)
    ctx.nested = dict(nested) if nested else None
    prev = seam.current()
    seam.install(ctx)
    try:
        try:
            v = thunk()
            # graph=True: also which sub-objects of the result are one and the same object
            out = {'status': 'ok', 'value': canon.canon_graph(v) if graph else canon.canon(v)}
            if after is not None:
                after(v)
        except Exception as e:
            name, toks = canon.canon_exc(e, norm)
            out = {'status': 'exc', 'exc': name, 'msg': toks,
                   'from_callback': from_user_code(e),
                   'contained': classify_exc(e),
                   'text': (norm(str(e)) if norm else str(e))[:300]}
            if retain is not None:
                # the caller keeps the exception (a Future, a log record, pytest's
                # excinfo do): its traceback keeps the frames of the failed call alive
                retain.append(e)
            else:
                e.__traceback__ = None
            del e
    finally:
        seam.install(prev)
    out['trace'] = [list(x) for x in ctx.trace]
    return out, ctx


def comparable(out):
    """The part of an outcome that oracles compare."""
    if out['status'] == 'ok':
        return ['ok', out['value'], out['trace']]
    return ['exc', out['exc'], out['msg'], out['trace']]


def is_contained(out):
    """C08's predicate: returned, or RecognitionError / YAMLError."""
    if out['status'] == 'ok':
        return True
    return out.get('contained', False)


def classify_exc(e):
    import yaml
    import yatiml
    return isinstance(e, (yatiml.RecognitionError, yaml.YAMLError))


def call_cost(thunk):
    """Deterministic cost proxy: number of Python function calls thunk() makes.

    Used only to scale how many schedules/faults are enumerated for a case, so
    that a pathologically expensive (class model, document) pair cannot eat the
    budget; never influences an oracle.
    """
    import os
    import sys
    import yaml
    import yatiml
    n = [0]
    # only calls inside yatiml, PyYAML and generated classes: the caches of re,
    # typing and logging (warm or cold, evicted or not) must not influence the
    # enumeration size, or a plan would not repeat exactly
    prefixes = (os.path.dirname(yatiml.__file__) + os.sep, os.path.dirname(yaml.__file__) + os.sep,
                GEN_PREFIX)

    def prof(frame, event, arg):
        if event == 'call' and frame.f_code.co_filename.startswith(prefixes):
            n[0] += 1
    old = sys.getprofile()
    sys.setprofile(prof)
    try:
        try:
            thunk()
        except Exception:
            pass
    finally:
        sys.setprofile(old)
    return n[0]
