"""I/O seam: simulated raw device, sim mount (patched open), duck streams and sinks.

Real: the CPython io stack (TextIOWrapper, BufferedReader/Writer) on top of the
stub raw device.  Stub: SimRawIO (what a disk / pipe does per raw call), the file
namespace below the sim mount, caller-supplied duck streams.
"""
import builtins
import errno as _errno
import io
import locale
import os
import shutil
import tempfile

from sim import seam

_real_open = io.open

# bumped whenever the file namespace of a mount changes (a file is opened for writing,
# replaced, renamed, removed): the write-point profile of the C11 engine treats the file
# system as state that outlives a call
FS_EPOCH = [0]

ERRNOS = {'EIO': _errno.EIO, 'ENOSPC': _errno.ENOSPC, 'ENOENT': _errno.ENOENT,
          'EACCES': _errno.EACCES, 'EMFILE': _errno.EMFILE, 'EINTR': _errno.EINTR}


class IoStats:
    """What actually happened at the seam during one operation."""

    def __init__(self):
        self.raw_reads = 0
        self.raw_writes = 0
        self.short_reads = 0
        self.short_writes = 0
        self.faults_fired = []      # (kind, detail)
        self.eintr_fired = 0
        self.opened = []            # (path, mode)
        self.closed = 0
        self.fault_during_close = False
        self.duck_reads = 0
        self.duck_writes = 0


class SimFile:
    """A file on the simulated device."""

    def __init__(self, data=b''):
        self.data = bytearray(data)
        self.opened_for_write = False


def _chunk_iter(chunks):
    """Cycle through a chunk-size list; None/[] means 'as much as asked'."""
    if not chunks:
        while True:
            yield None
    i = 0
    while True:
        yield chunks[i % len(chunks)]
        i += 1


class SimRawIO(io.RawIOBase):
    """Raw device following a plan.

    plan = {'chunks': [max bytes per raw call, ...] (cycled),
            'fault': None | {'op': 'read'|'write', 'at': byte offset, 'errno': name},
            'eintr': [raw call indices that raise EINTR first]}
    """

    def __init__(self, simfile, mode, plan, iostats, name='<simfile>'):
        super().__init__()
        self._f = simfile
        self._mode = mode
        self._plan = plan or {}
        self._chunks = _chunk_iter(self._plan.get('chunks'))
        self._fault = self._plan.get('fault')
        self._eintr = set(self._plan.get('eintr') or ())
        self._calls = 0
        self._st = iostats
        self.name = name
        self._pos = 0
        self._in_close = False
        if 'w' in mode:
            self._f.data = bytearray()
            self._f.opened_for_write = True
        elif 'a' in mode:
            self._pos = len(self._f.data)
            self._f.opened_for_write = True

    def readable(self):
        return 'r' in self._mode or '+' in self._mode

    def writable(self):
        return any(c in self._mode for c in 'wa+x')

    def seekable(self):
        return True

    def tell(self):
        return self._pos

    def seek(self, offset, whence=0):
        if whence == 0:
            self._pos = offset
        elif whence == 1:
            self._pos += offset
        else:
            self._pos = len(self._f.data) + offset
        self._pos = max(0, self._pos)
        return self._pos

    def _maybe_eintr(self):
        hook = seam.yield_hook
        if hook is not None:
            hook('io')      # real threads drop the GIL here
        i = self._calls
        self._calls += 1
        if i in self._eintr:
            self._eintr.discard(i)
            self._st.eintr_fired += 1
            raise InterruptedError(_errno.EINTR, 'Interrupted system call (simulated)')

    def readinto(self, b):
        self._maybe_eintr()
        self._st.raw_reads += 1
        want = len(b)
        remaining = len(self._f.data) - self._pos
        n = min(want, max(remaining, 0))
        c = next(self._chunks)
        if c is not None and c < n:
            n = max(1, c)
            self._st.short_reads += 1
        f = self._fault
        if f and f['op'] == 'read':
            at = f['at']
            if at <= self._pos:
                self._st.faults_fired.append(('read', f['errno'], self._pos))
                raise OSError(ERRNOS[f['errno']], 'simulated read error')
            if self._pos < at < self._pos + n:
                n = at - self._pos
        b[:n] = self._f.data[self._pos:self._pos + n]
        self._pos += n
        return n

    def write(self, b):
        self._maybe_eintr()
        self._st.raw_writes += 1
        b = bytes(b)
        n = len(b)
        c = next(self._chunks)
        if c is not None and c < n:
            n = max(1, c)
            self._st.short_writes += 1
        f = self._fault
        if f and f['op'] == 'write':
            at = f['at']
            if at <= self._pos:
                self._st.faults_fired.append(('write', f['errno'], self._pos))
                if self._in_close:
                    self._st.fault_during_close = True
                raise OSError(ERRNOS[f['errno']], 'simulated write error')
            if self._pos < at < self._pos + n:
                n = at - self._pos
        data = self._f.data
        if self._pos > len(data):
            data.extend(b'\0' * (self._pos - len(data)))
        data[self._pos:self._pos + n] = b[:n]
        self._pos += n
        return n

    def truncate(self, size=None):
        if size is None:
            size = self._pos
        del self._f.data[size:]
        return size

    def close(self):
        if not self.closed:
            self._st.closed += 1
            if self.writable() and self.name and os.path.isabs(str(self.name)):
                # mirror to the real directory, so that code that stats, renames or
                # re-opens the file behind the patched open finds what was written
                try:
                    with _real_open(self.name, 'wb') as f:
                        f.write(bytes(self._f.data))
                except OSError:
                    pass
        super().close()

    def fileno(self):
        raise io.UnsupportedOperation('fileno')

    def isatty(self):
        return False


class Mount:
    """A directory whose paths are served by the simulated device.

    The directory really exists (so that code reaching a file behind the
    patched open still finds the right bytes), and `files` maps absolute path ->
    SimFile.  Installed with `with mount:`; not re-entrant, one per process.
    """

    def __init__(self):
        self.dir = os.path.realpath(tempfile.mkdtemp(prefix='yatiml_simmount.'))
        # a little directory structure: names may reach a file through a sub-directory, or
        # through a symlinked directory followed by '..' (which the OS resolves link first)
        os.makedirs(os.path.join(self.dir, 'real', 'inner'))
        os.symlink(os.path.join('real', 'inner'), os.path.join(self.dir, 'link'))
        self.files = {}
        self.plans = {}         # path -> raw plan for the next open
        self.open_faults = {}   # path -> errno name
        self.knobs = {}         # 'buffer_size', 'text_chunk'
        self.iostats = IoStats()
        self._installed = False

    def path(self, name):
        return os.path.join(self.dir, name)

    @staticmethod
    def key(p):
        """The file a name denotes, as the OS resolves it (symlinks before '..')."""
        return os.path.realpath(p)

    def put(self, name, data):
        p = self.path(name)
        self.files[self.key(p)] = SimFile(data)
        with _real_open(p, 'wb') as f:
            f.write(data)
        return p

    def remove(self, name):
        p = self.path(name)
        self.files.pop(self.key(p), None)
        try:
            getattr(self, '_real_unlink', os.unlink)(p)
        except FileNotFoundError:
            pass

    def content(self, name):
        """Bytes of a sink: from the device if it was opened there, else real file."""
        p = self.path(name)
        sf = self.files.get(self.key(p))
        if sf is not None and sf.opened_for_write:
            return bytes(sf.data), 'device'
        try:
            with _real_open(p, 'rb') as f:
                return f.read(), 'realfile'
        except FileNotFoundError:
            return None, 'missing'

    def reset(self):
        self.plans.clear()
        self.open_faults.clear()
        self.knobs = {}
        self.iostats = IoStats()

    def _open(self, file, mode='r', buffering=-1, encoding=None, errors=None,
              newline=None, closefd=True, opener=None):
        try:
            p = os.fspath(file) if not isinstance(file, int) else None
        except TypeError:
            p = None
        if isinstance(p, bytes):
            p = os.fsdecode(p)
        if p is None or not self.key(p).startswith(self.dir + os.sep):
            return _real_open(file, mode, buffering, encoding, errors, newline,
                              closefd, opener)
        named = os.path.abspath(p)
        p = self.key(p)
        st = self.iostats
        st.opened.append((os.path.basename(p), mode))
        if p in self.open_faults or named in self.open_faults:
            en = self.open_faults[p] if p in self.open_faults else self.open_faults[named]
            st.faults_fired.append(('open', en, 0))
            raise OSError(ERRNOS[en], os.strerror(ERRNOS[en]), p)
        binary = 'b' in mode
        m = mode.replace('b', '').replace('t', '')
        if 'r' in m and p not in self.files:
            raise FileNotFoundError(_errno.ENOENT, os.strerror(_errno.ENOENT), p)
        if 'x' in m and p in self.files:
            raise FileExistsError(_errno.EEXIST, os.strerror(_errno.EEXIST), p)
        if p not in self.files:
            self.files[p] = SimFile()
        if any(c in m for c in 'wax+'):
            FS_EPOCH[0] += 1
        if any(c in m for c in 'wax+') and not os.path.exists(p):
            try:
                _real_open(p, 'ab').close()     # the name exists from now on
            except OSError:
                pass
        raw = SimRawIO(self.files[p], m, self.plans.get(p) or self.plans.get(named), st, name=p)
        if buffering == 0:
            if not binary:
                raise ValueError("can't have unbuffered text I/O")
            return raw
        bs = self.knobs.get('buffer_size') or io.DEFAULT_BUFFER_SIZE
        if buffering > 1:
            bs = buffering
        if '+' in m:
            buf = io.BufferedRandom(raw, bs)
        elif 'r' in m:
            buf = io.BufferedReader(raw, bs)
        else:
            buf = io.BufferedWriter(raw, bs)
        if binary:
            return buf
        if encoding is None:
            encoding = locale.getencoding()
        t = io.TextIOWrapper(buf, encoding, errors, newline, buffering == 1)
        t.mode = mode
        tc = self.knobs.get('text_chunk')
        if tc:
            t._CHUNK_SIZE = tc
        return t

    def _inside(self, path):
        try:
            p = os.fspath(path)
        except TypeError:
            return None
        if isinstance(p, bytes):
            p = os.fsdecode(p)
        p = self.key(p)
        return p if p.startswith(self.dir + os.sep) else None

    def _replace(self, src, dst, **kw):
        FS_EPOCH[0] += 1
        a, b = self._inside(src), self._inside(dst)
        self._real_replace(src, dst, **kw)      # raises as the OS would
        if a is not None and a in self.files:
            sf = self.files.pop(a)
            if b is not None:
                self.files[b] = sf
        elif b is not None:
            self.files.pop(b, None)             # replaced by a file the device never saw

    def _rename(self, src, dst, **kw):
        FS_EPOCH[0] += 1
        a, b = self._inside(src), self._inside(dst)
        self._real_rename(src, dst, **kw)
        if a is not None and a in self.files:
            sf = self.files.pop(a)
            if b is not None:
                self.files[b] = sf
        elif b is not None:
            self.files.pop(b, None)

    def _unlink(self, path, **kw):
        FS_EPOCH[0] += 1
        a = self._inside(path)
        self._real_unlink(path, **kw)
        if a is not None:
            self.files.pop(a, None)

    def __enter__(self):
        assert not self._installed
        io.open = self._open
        builtins.open = self._open
        # the file namespace: renames and removals of mount paths move the device files too
        self._real_replace, self._real_rename = os.replace, os.rename
        self._real_unlink, self._real_remove = os.unlink, os.remove
        os.replace, os.rename = self._replace, self._rename
        os.unlink = os.remove = self._unlink
        self._installed = True
        return self

    def __exit__(self, *a):
        io.open = _real_open
        builtins.open = _real_open
        os.replace, os.rename = self._real_replace, self._real_rename
        os.unlink, os.remove = self._real_unlink, self._real_remove
        self._installed = False

    def destroy(self):
        shutil.rmtree(self.dir, ignore_errors=True)


def raw_stack(data, plan, iostats, kind, knobs=None):
    """A caller-supplied stream on a simulated raw device.

    kind: 'text' -> TextIOWrapper(BufferedReader(SimRawIO)), utf-8, newline as in open()
          'binary' -> BufferedReader(SimRawIO)
    """
    knobs = knobs or {}
    raw = SimRawIO(SimFile(data), 'r', plan, iostats)
    buf = io.BufferedReader(raw, knobs.get('buffer_size') or io.DEFAULT_BUFFER_SIZE)
    if kind == 'binary':
        return buf
    t = io.TextIOWrapper(buf, 'utf-8', None, None)
    if knobs.get('text_chunk'):
        t._CHUNK_SIZE = knobs['text_chunk']
    return t


def raw_sink(plan, iostats, knobs=None, encoding='utf-8'):
    """TextIOWrapper(BufferedWriter(SimRawIO)) handed to dump as an open text stream."""
    knobs = knobs or {}
    sf = SimFile()
    raw = SimRawIO(sf, 'w', plan, iostats)
    buf = io.BufferedWriter(raw, knobs.get('buffer_size') or io.DEFAULT_BUFFER_SIZE)
    t = io.TextIOWrapper(buf, encoding, None, None)
    return t, sf


class DuckSource:
    """Exposes only read(n): the whole contract PyYAML relies on.

    items: str or bytes.  chunks: list of max sizes per read (cycled), never
    returning an empty result before the end.  fault_at: item offset at which
    read raises OSError(EIO) (data before it is delivered first).
    """

    def __init__(self, items, chunks, iostats, fault_at=None):
        self._items = items
        self._pos = 0
        self._chunks = _chunk_iter(chunks)
        self._st = iostats
        self._fault_at = fault_at

    def read(self, size=-1):
        hook = seam.yield_hook
        if hook is not None:
            hook('io')
        self._st.duck_reads += 1
        rem = len(self._items) - self._pos
        n = rem if size is None or size < 0 else min(size, rem)
        c = next(self._chunks)
        if c is not None and c < n:
            n = max(1, c)
            self._st.short_reads += 1
        fa = self._fault_at
        if fa is not None:
            if fa <= self._pos:
                self._st.faults_fired.append(('duck_read', 'EIO', self._pos))
                raise OSError(_errno.EIO, 'simulated read error')
            if self._pos < fa < self._pos + n:
                n = fa - self._pos
        out = self._items[self._pos:self._pos + n]
        self._pos += n
        return out


class DuckSink:
    """A minimal open text stream: write(str) and, optionally, flush()."""

    def __init__(self, iostats, fail_at_write=None):
        self.parts = []
        self._st = iostats
        self._fail_at = fail_at_write
        self._n = 0

    def write(self, s):
        if not isinstance(s, str):
            raise TypeError('write() argument must be str, not {}'.format(type(s).__name__))
        hook = seam.yield_hook
        if hook is not None:
            hook('io')
        i = self._n
        self._n += 1
        self._st.duck_writes += 1
        if self._fail_at is not None and i >= self._fail_at:
            self._st.faults_fired.append(('duck_write', 'EIO', i))
            raise OSError(_errno.EIO, 'simulated write error')
        self.parts.append(s)
        return len(s)

    def content(self):
        return ''.join(self.parts)


class DuckSinkConsole(DuckSink):
    """A sys.stdout-like sink: write(str), flush(), and encoding/errors attributes."""
    encoding = 'latin-1'
    errors = 'strict'

    def flush(self):
        pass


class DuckSinkFlush(DuckSink):
    def __init__(self, iostats, fail_at_write=None):
        super().__init__(iostats, fail_at_write)
        self.flushes = 0

    def flush(self):
        self.flushes += 1
