"""Baton scheduler: real threads, one runs at a time, the tape decides who (DESIGN.md §3.3).

Every simulated client is a real `threading.Thread`.  A thread runs only while it
holds the baton; it gives the baton away only at a *yield point*:

  * a `line` (or, per knob, `opcode`) trace event in a frame whose code lives in
    the yatiml package under test, in PyYAML (per the scope knob) or in a
    generated user class;
  * a call into the callback seam (`seam.cb`) or the I/O seam (simulated raw
    device, duck streams);
  * an attempt to take a `SimLock` that another simulated thread holds.

At a yield point the scheduler consults the plan's tape - it never consults a
PRNG or a clock - so one tape is one exactly repeatable interleaving.

tape = {'entries': [[run_length, pick], ...],
        'tail': None | {'q': quantum, 'picks': [p0, p1, ...]}}

The running thread runs `run_length` yield points, then the baton goes to
`runnable_others[pick % n]`.  When the entries are used up the tail applies: a
fixed quantum with cycled picks, or (None) "run to completion, then the lowest
runnable id".
"""
import _thread
import hashlib
import os
import sys
import threading

from sim import seam

ACTIVE = None       # the Scheduler of the run in progress (one per process)

_real_allocate_lock = _thread.allocate_lock


class SimAbort(BaseException):
    """Unwinds every simulated thread (deadlock, step cap, harness stop)."""


class SimThread:
    __slots__ = ('id', 'body', 'sem', 'state', 'waiting', 'ident', 'real',
                 'op_yields', 'cancel_at', 'cancel_fired', 'error', 'sched',
                 'nyield', 'cur_op')

    def __init__(self, sched, tid, body):
        self.sched = sched
        self.id = tid
        self.body = body
        self.sem = _real_allocate_lock()
        self.sem.acquire()
        self.state = 'runnable'     # runnable | blocked | done
        self.waiting = None
        self.ident = None
        self.real = None
        self.op_yields = 0
        self.cancel_at = None
        self.cancel_fired = False
        self.error = None
        self.cur_op = None
        self.nyield = 0             # all yield points of this thread so far

    # -- tracing ---------------------------------------------------------
    def global_trace(self, frame, event, arg):
        if event != 'call':
            return None
        code = frame.f_code
        sc = self.sched
        d = sc.code_scope.get(code)
        if d is None:
            d = sc.classify(code)
            sc.code_scope[code] = d
        if d == 0:
            return None
        if d == 2 and not code.co_flags & 0x20:
            # (not for generator code: see _disarm_opcodes)
            frame.f_trace_opcodes = True
        return self.local_trace

    def local_trace(self, frame, event, arg):
        if event == 'line' or event == 'opcode':
            sc = self.sched
            sc.last_loc = (frame.f_code, frame.f_lineno)
            self.op_yields += 1
            if self.cancel_at is not None and self.op_yields >= self.cancel_at:
                self.cancel_at = None
                self.cancel_fired = True
                sc.cancel_locs.append(sc.loc_text(frame.f_code, frame.f_lineno))
                _disarm_opcodes(frame)
                raise seam.SimCancel()
            try:
                sc.yield_point(self)
            except SimAbort:
                _disarm_opcodes(frame)
                raise
        return self.local_trace

    def begin_op(self, cancel_at=None):
        """Called by the thread before each operation."""
        self.op_yields = 0
        self.cancel_at = cancel_at
        self.cancel_fired = False
        if self.sched.traced:
            # CPython unsets the trace function after it raised (cancel)
            sys.settrace(self.global_trace)

    def run(self):
        sc = self.sched
        self.ident = _thread.get_ident()
        sc.idents.add(self.ident)
        self.sem.acquire()          # parked until given the baton
        try:
            if sc.abort is not None:
                raise SimAbort(sc.abort)
            if sc.traced:
                sys.settrace(self.global_trace)
            self.body(self)
        except SimAbort:
            pass
        except BaseException as e:      # the body is harness code: report
            self.error = '{}: {}'.format(type(e).__name__, e)
            import traceback
            self.error += '\n' + traceback.format_exc()
        finally:
            sys.settrace(None)
            sc.thread_done(self)


def _disarm_opcodes(frame):
    """Before an exception leaves a trace function.

    CPython unsets the thread's trace function when it raises; CPython 3.12.1 then
    calls the (NULL) trace function for the next instruction event in any frame
    that still has f_trace_opcodes set (SIGSEGV in sys_trace_instruction_func,
    observed).  Frames on the stack are disarmed here; suspended generator frames
    cannot be reached, so generator code is never opcode-traced."""
    f = frame
    while f is not None:
        if f.f_trace_opcodes:
            f.f_trace_opcodes = False
        f = f.f_back


class Scheduler:
    def __init__(self, tape, yatiml_dir, yaml_dir, gen_prefix, scope='core',
                 granularity='line', max_steps=3000000, traced=True, on_switch=None,
                 on_yield=None):
        tape = tape or {}
        self.entries = [list(e) for e in (tape.get('entries') or [])]
        self.tail = tape.get('tail')
        self.tpos = 0
        self.tail_i = 0
        self.run_left = None
        self._load_next_run()
        self.threads = []
        self.current = None
        self.step = 0
        self.ops_done = 0      # finished operations (progress marker of the watchdog)
        self.max_steps = max_steps
        self.abort = None
        self.deadlock = False
        self.traced = traced
        self.switch_count = 0
        self.switch_hash = hashlib.sha256()
        self.switch_edges = set()
        self.switch_log = []            # first few switches, human-readable
        self.last_loc = (None, 0)
        self.cancel_locs = []
        self.code_scope = {}
        self.on_switch = on_switch
        self.on_yield = on_yield
        self.yatiml_dir = yatiml_dir.rstrip(os.sep) + os.sep
        self.yaml_dir = yaml_dir.rstrip(os.sep) + os.sep
        self.gen_prefix = gen_prefix
        self.scope = scope
        self.granularity = granularity
        self.done_lock = _real_allocate_lock()
        self.done_lock.acquire()
        self.idents = set()
        self.hung = False
        self.io_yields = 0
        self.cb_yields = 0
        self.lock_blocks = 0
        self.probes = {}

    # -- scope -------------------------------------------------------------
    CORE = ('constructor.py', 'representer.py', 'resolver.py', '__init__.py',
            'composer.py', 'serializer.py', 'nodes.py')

    def classify(self, code):
        """0 = not a yield scope, 1 = line events, 2 = opcode events."""
        fn = code.co_filename
        if fn.startswith(self.yatiml_dir):
            return 2 if self.granularity == 'opcode' else 1
        if fn.startswith(self.gen_prefix):
            return 1
        if fn.startswith(self.yaml_dir):
            if self.scope == 'all':
                return 1
            if self.scope == 'core' and os.path.basename(fn) in self.CORE:
                return 1
        return 0

    def loc_text(self, code, line):
        if code is None:
            return 'seam'
        fn = code.co_filename
        if fn.startswith(self.yatiml_dir):
            fn = 'yatiml/' + fn[len(self.yatiml_dir):]
        elif fn.startswith(self.yaml_dir):
            fn = 'yaml/' + fn[len(self.yaml_dir):]
        return '{}:{}'.format(fn, line)

    # -- tape --------------------------------------------------------------
    def _load_next_run(self):
        if self.tpos < len(self.entries):
            self.run_left = max(1, int(self.entries[self.tpos][0]))
            self.cur_pick = int(self.entries[self.tpos][1])
            self.tpos += 1
        elif self.tail:
            self.run_left = max(1, int(self.tail['q']))
            picks = self.tail.get('picks') or [0]
            self.cur_pick = int(picks[self.tail_i % len(picks)])
            self.tail_i += 1
        else:
            self.run_left = None
            self.cur_pick = 0

    # -- threads -------------------------------------------------------------
    def add_thread(self, body):
        t = SimThread(self, len(self.threads), body)
        self.threads.append(t)
        return t

    def in_sim_thread(self):
        return _thread.get_ident() in self.idents

    def run(self, join_timeout=120, hard_timeout=600):
        """Runs all threads to completion under the tape.  Returns None."""
        global ACTIVE
        if not self.threads:
            return
        # threading._after_fork() re-creates this lock in every forked child, by
        # then with the patched (cooperative) RLock; threads take it while they
        # start and exit, when the tape does not schedule them: keep it real
        if isinstance(getattr(threading, '_active_limbo_lock', None), SimRLock):
            threading._active_limbo_lock = _thread.RLock()
        ACTIVE = self
        seam.yield_hook = self.seam_yield
        if self.traced and self.granularity == 'opcode':
            _warm_opcode_flag()
        try:
            for t in self.threads:
                t.real = threading.Thread(target=t.run, name='sim-{}'.format(t.id), daemon=True)
                t.real.start()
            # idents are known only once the threads run; they park first
            self.current = self.threads[0]
            self.current.sem.release()
            # progress-based watchdog: a run is given up only when neither the step
            # counter nor the number of finished operations moved for join_timeout
            # seconds (a loaded machine must not turn a long history into "no verdict"),
            # or after hard_timeout seconds in all
            import time as _time
            t_end = _time.monotonic() + hard_timeout
            mark = (self.step, self.ops_done)
            finished = False
            while True:
                if self.done_lock.acquire(True, join_timeout):
                    finished = True
                    break
                now = (self.step, self.ops_done)
                if now == mark or _time.monotonic() > t_end:
                    break
                mark = now
            if not finished:
                self.abort = self.abort or 'harness: run did not finish in {}s'.format(join_timeout)
                self.hung = True
                for t in self.threads:
                    try:
                        t.sem.release()
                    except RuntimeError:
                        pass
            for t in self.threads:
                t.real.join(5)
        finally:
            seam.yield_hook = None
            ACTIVE = None

    def _runnable_others(self, cur):
        return [t for t in self.threads if t.state == 'runnable' and t is not cur]

    def yield_point(self, cur):
        self.step += 1
        cur.nyield += 1
        if self.on_yield is not None:
            self.on_yield(self, cur)
        if self.step > self.max_steps:
            self._abort_all('harness: step cap {} reached'.format(self.max_steps), cur)
        if self.run_left is None:
            return
        self.run_left -= 1
        if self.run_left > 0:
            return
        pick = self.cur_pick
        self._load_next_run()
        others = self._runnable_others(cur)
        if not others:
            return
        self._switch(cur, others[pick % len(others)])

    def seam_yield(self, tag):
        """Yield point at a seam call (callback / simulated I/O)."""
        cur = self.current
        if cur is None or _thread.get_ident() != cur.ident:
            return
        if tag == 'cb':
            self.cb_yields += 1
        else:
            self.io_yields += 1
        self.last_loc = (None, 0)
        self.yield_point(cur)

    def _switch(self, cur, nxt):
        code, line = self.last_loc
        loc = self.loc_text(code, line)
        self.switch_count += 1
        self.switch_hash.update('{}|{}>{}|{};'.format(self.step, cur.id, nxt.id, loc).encode())
        self.switch_edges.add(loc)
        if len(self.switch_log) < 40:
            self.switch_log.append([self.step, cur.id, nxt.id, loc])
        if self.on_switch is not None:
            self.on_switch(self, cur, nxt, loc)
        self.current = nxt
        nxt.sem.release()
        cur.sem.acquire()
        if self.abort is not None:
            raise SimAbort(self.abort)

    def _abort_all(self, reason, cur):
        if self.abort is None:
            self.abort = reason
        for t in self.threads:
            if t is not cur and t.state != 'done':
                t.state = 'runnable'
        raise SimAbort(reason)

    def thread_done(self, t):
        t.state = 'done'
        if self.abort is not None:
            # wake everybody who is parked; each raises SimAbort and ends
            for o in self.threads:
                if o.state != 'done':
                    self.current = o
                    try:
                        o.sem.release()
                    except RuntimeError:
                        pass
                    return
            self._finish()
            return
        others = self._runnable_others(t)
        if others:
            nxt = others[0]
            self.switch_hash.update('{}|{}x>{};'.format(self.step, t.id, nxt.id).encode())
            self.current = nxt
            nxt.sem.release()
            return
        blocked = [o for o in self.threads if o.state == 'blocked']
        if blocked:
            self.deadlock = True
            self.abort = 'deadlock: threads {} wait for locks nobody will release'.format(
                [o.id for o in blocked])
            o = blocked[0]
            o.state = 'runnable'
            self.current = o
            o.sem.release()
            return
        self._finish()

    def _finish(self):
        self.current = None
        try:
            self.done_lock.release()
        except RuntimeError:
            pass

    # -- cooperative locks -----------------------------------------------------
    def block_current(self, lock):
        cur = self.current
        self.lock_blocks += 1
        cur.state = 'blocked'
        cur.waiting = lock
        others = self._runnable_others(cur)
        if not others:
            cur.state = 'runnable'
            cur.waiting = None
            self.deadlock = True
            if os.environ.get('VERIF_DEBUG_DEADLOCK'):
                import faulthandler
                sys.stderr.write('DEADLOCK on lock made at:\n' + getattr(lock, '_made', '?') + '\n')
                faulthandler.dump_traceback(all_threads=True)
            self._abort_all('deadlock: thread {} waits for a lock (created at {}) held by a parked '
                            'thread'.format(cur.id, getattr(lock, '_made', '?')), cur)
        self.last_loc = (None, 0)
        self.step += 1
        self._switch(cur, others[0])

    def unblock(self, lock):
        for t in self.threads:
            if t.state == 'blocked' and t.waiting is lock:
                t.state = 'runnable'
                t.waiting = None

    def digest(self):
        return self.switch_hash.hexdigest()


def _warm_opcode_flag():
    """CPython 3.12: the first frame that sets f_trace_opcodes flips an
    interpreter-wide flag, and the next sys.settrace() call then adds INSTRUCTION
    events globally, re-instrumenting code that parked threads are in the middle
    of (observed: SIGSEGV).  Flip the flag here, on the main thread, before any
    simulated thread runs, so that the event set never changes during a run."""
    def probe():
        return None

    def tr(frame, event, arg):
        frame.f_trace_opcodes = True
        return None
    sys.settrace(tr)
    try:
        probe()
    finally:
        sys.settrace(None)


class SimLock:
    """Cooperative replacement for threading.Lock inside a simulated run."""

    def __init__(self):
        self._real = _real_allocate_lock()
        try:
            f = sys._getframe(1)
            self._made = '{}:{} <- {}:{}'.format(
                f.f_code.co_filename, f.f_lineno,
                f.f_back.f_code.co_filename if f.f_back else '?',
                f.f_back.f_lineno if f.f_back else 0)
        except Exception:
            self._made = '?'

    def acquire(self, blocking=True, timeout=-1):
        sc = ACTIVE
        cur = sc.current if sc is not None else None
        if cur is None or cur.state == 'done' or _thread.get_ident() != cur.ident:
            # not the baton holder (main thread, a thread that is still being
            # started or is exiting): an ordinary lock
            return self._real.acquire(blocking, timeout)
        while True:
            if self._real.acquire(False):
                return True
            if not blocking:
                return False
            sc.block_current(self)

    def release(self):
        self._real.release()
        sc = ACTIVE
        if sc is not None:
            sc.unblock(self)

    def locked(self):
        return self._real.locked()

    __enter__ = acquire

    def __exit__(self, *a):
        self.release()


class SimRLock:
    def __init__(self):
        self._lock = SimLock()
        self._owner = None
        self._count = 0

    def acquire(self, blocking=True, timeout=-1):
        me = _thread.get_ident()
        if self._owner == me:
            self._count += 1
            return True
        ok = self._lock.acquire(blocking, timeout)
        if ok:
            self._owner = me
            self._count = 1
        return ok

    def release(self):
        if self._owner != _thread.get_ident():
            raise RuntimeError('cannot release un-acquired lock')
        self._count -= 1
        if self._count == 0:
            self._owner = None
            self._lock.release()

    __enter__ = acquire

    def __exit__(self, *a):
        self.release()

    # used by threading.Condition
    def _is_owned(self):
        return self._owner == _thread.get_ident()

    def _release_save(self):
        c, o = self._count, self._owner
        self._count = 0
        self._owner = None
        self._lock.release()
        return c, o

    def _acquire_restore(self, state):
        self._lock.acquire()
        self._count, self._owner = state


_patched = False


def patch_locks():
    """Make locks that the code under test creates later cooperative.

    Must run before yatiml and yaml are imported, after the standard library
    modules the harness itself needs (their locks stay real: their code is
    never a yield scope, so a simulated thread never parks while holding one).
    """
    global _patched
    if _patched:
        return
    _patched = True
    threading.Lock = SimLock
    threading.RLock = SimRLock
