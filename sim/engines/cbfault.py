"""C08 (fault clause): callback failures surface only as RecognitionError / YAMLError.

fault_enumeration: for each generated (class model, document) the load is run
once to count callback invocations, then once per (invocation index x exception
variant applicable to that site kind) with that single fault injected.
"""
import collections

from sim import canon, ops, seam
from sim import universe as U
from sim.engines import REAL_STUB, Engine

INIT_EXCS = sorted(seam.EXC_TABLE) + ['SeasoningError', 'RecognitionError']
ALL_INIT_VARIANTS = [[e, a] for e in INIT_EXCS for a in seam.ARG_SHAPES
                     if not (e == 'UnicodeDecodeError' and a != 'msg')]
SAVORIZE_VARIANTS = [[e, a] for e in ('SeasoningError', 'UserSeasoningError') for a in seam.ARG_SHAPES]


class NamespaceCache:
    def __init__(self, cap=64):
        self.cap = cap
        self.d = collections.OrderedDict()

    def get(self, spec):
        k = canon.short(spec)
        ns = self.d.get(k)
        if ns is None:
            ns = U.Namespace(spec)
            self.d[k] = ns
            if len(self.d) > self.cap:
                self.d.popitem(last=False)
        else:
            self.d.move_to_end(k)
        return ns


class CbFault(Engine):
    name = 'cbfault'
    prop = 'C08'
    level = 'fault_enumeration'

    def worker_init(self, tier):
        self.cache = NamespaceCache()
        # deterministic cost guard, in Python function calls (ops.call_cost)
        self.call_budget = 2500000 if tier == 'quick' else 12000000

    def budget(self, tier):
        if tier == 'quick':
            return {'wall_s': 55, 'max_examples': 25}
        return {'wall_s': 840, 'max_examples': 40}

    def strategy(self, tier):
        from hypothesis import strategies as st
        from sim import plans

        @st.composite
        def plan(draw):
            spec = draw(plans.specs('s0', max_classes=5))
            roots = [t for t in plans.root_types(spec)]
            root = draw(st.sampled_from(roots))
            doc = None
            if draw(st.integers(0, 9)) == 0:
                # forward references: a top-level list of objects of a small hierarchy
                # (a dataclass base and a derived class that holds a base-typed part),
                # in which a nested object is anchored and repeated later as an item
                bases = [c for c in spec['classes'] if c['kind'] == 'regular' and not c.get('base')
                         and c.get('registered', True) and not c.get('extra')
                         and not any(plans._mentions_class(q['t']) for q in c.get('params', []))]
                free = [n for n in plans.CLASS_NAMES if n not in [c['name'] for c in spec['classes']]]
                if bases and free:
                    base = bases[0]
                    base['dc'] = draw(st.booleans())
                    pn = [n for n in ('part', 'inner', 'child')
                          if n not in {q['n'] for q in base.get('params', [])}][0]
                    spec['classes'].append({
                        'name': free[0], 'kind': 'regular', 'registered': True, 'base': base['name'],
                        'params': [{'n': pn, 't': ['cls', base['name']], 'd': None}], 'extra': False})
                    root = ['list', ['cls', base['name']]]
                    val = draw(plans.values(spec, root))
                    tree = plans.apply_corruption(U.value_to_tree(spec, val),
                                                  {'kind': 'hoist_alias', 'at': draw(st.integers(0, 40))})
                    doc, cs = U.write_doc(tree, draw(st.sampled_from(['block', 'flow']))), [{'kind': 'hoist_alias'}]
            names = [c['name'] for c in spec['classes']]
            order = list(draw(st.permutations(names)))
            if doc is None:
                doc, val, cs = draw(plans.doc_texts(spec, root, p_corrupt=0.3))
            source = draw(st.sampled_from(['str', 'str', 'stringio', 'bytesio']))
            if tier == 'thorough' and draw(st.integers(0, 3)) == 0:
                variants = ALL_INIT_VARIANTS
            else:
                n = draw(st.integers(2, 8))
                variants = [draw(st.sampled_from(ALL_INIT_VARIANTS)) for _ in range(n)]
            return {'spec': spec, 'root': root, 'order': order, 'doc': doc,
                    'source': source, 'variants': [list(v) for v in variants],
                    'corruptions': cs}
        return plan()

    def execute(self, plan, stats):
        ns = self.cache.get(plan['spec'])
        try:
            fn = ops.make_function(ns, 'load', plan['root'], plan['order'])
        except Exception as e:
            stats.count('function_creation_failed')
            return []
        doc = plan['doc']
        src = plan['source']
        try:
            doc.encode('utf-8')
        except UnicodeEncodeError:
            src = 'str'

        def thunk():
            return fn(ops.simple_source(doc, src))

        import time
        t0 = time.monotonic()
        base, ctx = ops.call(thunk)
        stats.count('baseline_loads')
        if time.monotonic() - t0 > 1.0:
            # (yatiml formats the repr of whole sub-trees into log messages: deep
            # documents cost far more than their Python call count suggests)
            stats.count('plans_skipped_too_costly')
            return []
        violations = []
        if base['status'] == 'ok':
            stats.count('baseline_ok')
        elif base.get('contained'):
            stats.count('baseline_recognition_or_yaml_error')
        elif base['from_callback']:
            # a generated class raised by itself (validation) and it escaped
            violations.append(self.violation(
                plan, 'natural', None, base, -1))
            return violations
        else:
            stats.count('baseline_other_exception_unclaimed_input_clause')
            stats.observe({'note': 'fault-free load let a non-callback exception escape '
                                   '(input clause of C08, not claimed)',
                           'exc': base['exc'], 'text': base['text'], 'doc': doc[:200]})
            return []
        trace = base['trace']
        n = len(trace)
        stats.count('callback_sites', n)
        seen_variants = set()
        variants = []
        for v in plan['variants']:
            if tuple(v) not in seen_variants:
                seen_variants.add(tuple(v))
                variants.append(v)
        nontrivial = False
        pairs = []
        for i in range(n):
            kind, uid = trace[i]
            if kind in ('init', 'strlike_init'):
                vs = variants
            elif kind == 'savorize':
                vs = SAVORIZE_VARIANTS
            else:
                continue
            for exc, args in vs:
                pairs.append((i, kind, exc, args))
        # deterministic cost cap: the cost of one load is measured in Python
        # function calls; keep (calls x faulted loads) bounded and, when
        # capping, spread the injected faults evenly over the enumerated pairs
        rc = max(1, ops.call_cost(thunk))
        if rc * 8 > self.call_budget * 2:
            stats.count('plans_skipped_too_costly')
            return []
        cap = max(8, self.call_budget // rc)
        if len(pairs) > cap:
            stats.count('plans_with_capped_enumeration')
            step = len(pairs) / float(cap)
            pairs = [pairs[int(k * step)] for k in range(cap)]
        else:
            stats.count('plans_with_full_enumeration')
        for i, kind, exc, args in pairs:
            if self.out_of_time():
                stats.count('plans_with_enumeration_cut_by_deadline')
                break
            fault = {'exc': exc, 'args': args, 'kind': kind}
            out, fctx = ops.call(thunk, {i: fault})
            stats.count('faulted_loads')
            if not fctx.fired:
                stats.count('fault_not_delivered')
                continue
            stats.count('fired:' + kind)
            nested = i > 0 and any(k in ('init', 'strlike_init') for k, _ in trace[:i])
            stats.seen('nontrivial', canon.short([kind, nested, exc, args]))
            nontrivial = True
            if out['status'] == 'ok':
                stats.count('faulted_load_returned')
            elif out.get('contained'):
                stats.count('faulted_load_contained')
            else:
                violations.append(self.violation(plan, kind, fault, out, i))
        if nontrivial:
            stats.sample({'doc': doc, 'root': plan['root'], 'source': src,
                          'callback_trace': trace[:12],
                          'classes': [c['name'] + ':' + c['kind'] for c in plan['spec']['classes']],
                          'variants': variants[:4]})
        # one violation per distinct signature is enough
        uniq = {}
        for v in violations:
            uniq.setdefault(canon.short(v['signature']), v)
        return list(uniq.values())

    def violation(self, plan, kind, fault, out, index):
        sig = {'engine': 'cbfault', 'site': kind,
               'exc': fault['exc'] if fault else None,
               'args': fault['args'] if fault else None,
               'escaped': out['exc']}
        return {'oracle': 'only RecognitionError/YAMLError may escape a load',
                'signature': sig,
                'detail': {'invocation_index': index, 'escaped_text': out.get('text'),
                           'doc': plan['doc'], 'trace': out['trace'][:20]}}

    def evidence(self, stats, tier):
        c = stats.counters
        fired = {k[6:]: v for k, v in c.items() if k.startswith('fired:')}
        cov = {
            'evaluations': c.get('evaluations', 0),
            'distinct_nontrivial': len(stats.distinct.get('nontrivial', ())),
            'rule': ('A case is a generated (class model, root type, document, source kind); it is run '
                     'once fault-free to count callback invocations and then once per (invocation index x '
                     'applicable exception variant) with that single fault injected at the callback seam. '
                     'distinct_nontrivial counts distinct (site kind, nested-below-another-constructor?, '
                     'injected exception class, argument shape) combinations whose fault was actually '
                     'delivered (fired), not merely planned.'),
            'samples': stats.samples[:6],
            'simulated_loads': c.get('baseline_loads', 0) + c.get('faulted_loads', 0),
            'faults_fired_by_site_kind': fired,
            'faults_planned_but_not_delivered': c.get('fault_not_delivered', 0),
            'baseline_outcomes': {
                'ok': c.get('baseline_ok', 0),
                'recognition_or_yaml_error': c.get('baseline_recognition_or_yaml_error', 0),
                'other_exception_from_input_clause_skipped': c.get(
                    'baseline_other_exception_unclaimed_input_clause', 0)},
            'faulted_outcomes': {'returned': c.get('faulted_load_returned', 0),
                                 'contained': c.get('faulted_load_contained', 0)},
            'callback_sites_enumerated': c.get('callback_sites', 0),
            'plans_with_full_enumeration': c.get('plans_with_full_enumeration', 0),
            'plans_with_capped_enumeration': c.get('plans_with_capped_enumeration', 0),
            'plans_skipped_too_costly': c.get('plans_skipped_too_costly', 0),
            'plans_with_enumeration_cut_by_deadline': c.get('plans_with_enumeration_cut_by_deadline', 0),
            'simulated_time': 'not applicable: yatiml reads no clock; logical steps are loads',
            'real_vs_stub': dict(REAL_STUB, **{
                'callback failures': 'injected at the generated classes\' first statement (stub fault source)',
                'sources': 'real str / io.StringIO / io.BytesIO'}),
            'exhaustive': False,
        }
        return {'coverage': cov, 'assumptions': [
            'Scope: only the clause "also when a user constructor, string-like class or savorize function '
            'raises" of C08 is decided; the clause over arbitrary input texts is not (DESIGN.md §6).',
            'savorize hooks raise only yatiml.SeasoningError (the documented protocol exception).',
            'Exceptions are injected at the first statement of the callback, not in its middle.',
        ]}
