"""Engine registry."""


class Engine:
    name = None
    prop = None
    level = None
    deadline = None     # monotonic time after which long enumerations are cut short

    def out_of_time(self):
        import time
        return self.deadline is not None and time.monotonic() > self.deadline

    def worker_init(self, tier):
        pass

    def worker_exit(self):
        pass

    def budget(self, tier):
        return {}

    def strategy(self, tier):
        raise NotImplementedError

    def execute(self, plan, stats):
        """Run one plan; returns a list of violation dicts.

        violation = {'oracle': str, 'signature': {...}, 'detail': {...}}
        """
        raise NotImplementedError

    def evidence(self, stats, tier):
        raise NotImplementedError


REAL_STUB = {
    'yatiml (imported from the tree under test)': 'real',
    'PyYAML 6.0.3 pure-Python SafeLoader/SafeDumper pipeline': 'real',
    'CPython io stack, typing, inspect, pathlib': 'real',
    'user classes and hooks': 'real Python classes generated from seeded class-model specs',
}


def make(name):
    if name == 'cbfault':
        from sim.engines.cbfault import CbFault
        return CbFault()
    if name == 'iosim':
        from sim.engines.iosim import IoSim
        return IoSim()
    if name == 'nodemodel':
        from sim.engines.nodemodel import NodeModel
        return NodeModel()
    if name == 'dumphist':
        from sim.engines.dumphist import DumpHist
        return DumpHist()
    if name == 'world':
        from sim.engines.world import World
        return World()
    raise KeyError(name)


BY_PROP = {'C06': 'dumphist', 'C08': 'cbfault', 'C11': 'world', 'C12': 'iosim', 'C14': 'nodemodel'}
