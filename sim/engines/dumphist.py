"""C06, history clause only: "Dumping never modifies the object graph, and repeated
dumps of the same object give identical text."

The same simulated world as C11 (sim.engines.world), with a workload made of dump
functions and shared objects that are dumped again and again - by one thread, by
several, through YAML and JSON functions, to strings and sinks, with failing
sweeteners, failing sinks and cancellations in between.  Only the two oracles that
state this clause are reported here:

  * the graph of every shared object (values *and* sharing structure) is the same
    after every dump as before the first one;
  * every dump of an object gives the text (or the exception) that the same dump
    gives in a fresh process in which nothing else has happened - hence any two
    dumps of the same object with the same function and options agree.

The rest of C06 (faithful, tag-free, ordered projection) is a pure function of the
value and is not decided by simulation (DESIGN.md §0).
"""
from sim import canon
from sim.engines.world import World

# (the class of a dumped object, with the plain-data attributes yatiml reads from it -
# _yatiml_defaults - is part of what the object is made of)
ORACLES = ('user-object-changed', 'user-class-changed', 'isolated-outcome')


class DumpHist(World):
    name = 'dumphist'
    prop = 'C06'
    level = 'exploration'

    def strategy(self, tier):
        from sim import worldplans
        return worldplans.dumphist_plans(tier)

    def execute(self, plan, stats):
        vs = World.execute(self, plan, stats)
        # repeated dumps: how often was one object dumped in this plan?
        per = {}
        for t in plan['threads']:
            for op in t:
                if 'shared' in op:
                    per[op['shared']] = per.get(op['shared'], 0) + 1
        rep = sum(n for n in per.values() if n > 1)
        stats.count('dumps_of_an_object_dumped_more_than_once', rep)
        if rep:
            stats.seen('nontrivial_c06', canon.short(
                [plan['specs'], plan['setup'], plan['threads'], plan.get('tape')]))
        # the clause speaks of the text (and of whether a dump succeeds); which hooks
        # ran and how an error message is worded are C11's / C10's business
        return [v for v in vs if v['signature'].get('oracle') in ORACLES
                and v['signature'].get('diff') not in ('callback-trace', 'message')]

    def evidence(self, stats, tier):
        ev = World.evidence(self, stats, tier)
        cov = ev['coverage']
        cov['distinct_nontrivial'] = len(stats.distinct.get('nontrivial_c06', ()))
        cov['dumps_of_an_object_dumped_more_than_once'] = stats.counters.get(
            'dumps_of_an_object_dumped_more_than_once', 0)
        cov['rule'] = ('Scope: the history clause of C06 only. A case is a world of dump functions '
                       '(dumps, dumps_json, optionally dump/dump_json to StringIO, duck sinks, paths on the '
                       'sim mount) and 1-4 shared objects (generated class instances with _yatiml_extra, '
                       '_yatiml_attributes, sweeten hooks, shared sub-objects, OrderedDicts, unregistered '
                       'objects), dumped 2-8 times per thread by 1-3 threads, with callback exceptions, sink '
                       'errors and cancellations attached to some dumps. evaluations = simulated runs '
                       '(a plan is run under its own tape and under schedules derived from its profiling run). '
                       'distinct_nontrivial = distinct plans in which at least one object was dumped more '
                       'than once.')
        ev['assumptions'] = [
            'Only the sentence "Dumping never modifies the object graph, and repeated dumps of the same '
            'object give identical text" of C06 is decided; the projection clauses are pure functions of '
            'the value (not a simulation target).',
            'Identical text is decided through the isolated reference: each dump equals the same dump in a '
            'fresh process, so any two dumps of one object with the same function and options agree.',
        ] + ev['assumptions']
        return ev
