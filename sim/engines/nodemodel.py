"""C14: yatiml.Node accessors vs an ordered-map / typed-scalar reference model.

Exploration of operation histories (sequential refinement): an explicit plan is
an initial document plus a list of operations addressed to *handles*; after each
operation the result (or exception class) and the plain view of every live
handle are compared with a small executable model written from the docstrings.
No schedule or fault dimension exists here and none is pretended (DESIGN.md §7).
"""
import unicodedata
import math

from sim import canon
from sim.engines import REAL_STUB, Engine

CORE = 'tag:yaml.org,2002:'
T_STR, T_INT, T_FLOAT, T_BOOL, T_NULL = (CORE + x for x in ('str', 'int', 'float', 'bool', 'null'))
SCALAR_TAGS = (T_STR, T_INT, T_FLOAT, T_BOOL, T_NULL)

PLAIN_SPELLINGS = [
    '0x1F', '017', '0b101', '1:30', '1__0', '1_000', '0o17', '-0x10', '+12', '-7', '0', '12',
    '.inf', '-.inf', '.nan', '+.INF', '.NaN', '1.', '.5', '1e3', '1E-2', '1.5', '-0.0', '6.02e+23',
    'true', 'True', 'FALSE', 'yes', 'no', 'on', 'null', '~', '', 'Null',
    'abc', 'a b', 'x_y', '2001-02-03', '1.2.3', 'trueish', '1e', '0x', '"quoted"', "'single'",
    '"12"', '"true"', '"null"', '=', '<<']
PY_VALUES = ['s:abc', 's:', 's:true', 's:12', 's:a b', 's:héllo', 's:null', 'i:0', 'i:3', 'i:-7',
             'i:123456789012345678901', 'f:1.5', 'f:0.0', 'f:-0.0', 'f:inf', 'f:-inf', 'f:nan',
             'f:1e300', 'f:1e-07', 'f:3.0', 'b:true', 'b:false', 'n:']
DEFAULTS = ['n:', 'i:0', 'i:3', 'f:1.5', 'f:3.0', 'f:3.7', 's:abc', 's:', 's:3', 'b:true', 'b:false',
            'l:', 'd:', 'f:inf', 'f:-inf', 'f:nan', 's:1.5', 's:true', 's:null', 'i:1']


# (keys with a Unicode twin: precomposed / combining accent, MICRO SIGN / Greek mu, the fi
# ligature, a fullwidth letter - distinct strings, hence distinct keys)
KEYS = ['a', 'b', 'c', 'ab', 'A', 'f', 'x_y', 'k-1', 'caf\u00e9', '\u00b5_max', 'file']
# (16 entries, one per selector value; names that are keys of many documents come several
# times: operating on a name that WAS a key a moment ago needs them)
ABSENT = ['zz', 'a', 'b', 'B', 'abc', 'x-y', 'new1', 'cafe\u0301', '\u03bc_max', '\ufb01le', '\uff41', 'a ',
          'a', 'b', 'c', 'ab']
TEXT_VALUES = ['[1, 2]', '{p: 1}', 'plain', '7', '[]', '{}', '0x1F']
OP_TABLE = (['has_attribute'] * 2 + ['get_attribute'] * 4 + ['set_attribute'] * 5
            + ['remove_attribute'] * 2 + ['rename_attribute'] * 2 + ['has_attribute_type'] * 3
            + ['is_scalar'] * 2 + ['is_mapping', 'is_sequence'] + ['set_value'] * 2
            + ['get_value'] * 3 + ['make_mapping', 'is_empty', 'seq_items']
            + ['remove_defaults'] * 3)
MAP_OPS = ('has_attribute', 'get_attribute', 'set_attribute', 'remove_attribute',
           'rename_attribute', 'has_attribute_type', 'remove_defaults')
TYPE_LIST = ['str', 'int', 'float', 'bool', 'None', 'list', 'dict', 'bytes', 'set', 'object',
             'NoneType']


def pyval(code):
    k, _, v = code.partition(':')
    if k == 's':
        return v
    if k == 'i':
        return int(v)
    if k == 'f':
        return float(v)
    if k == 'b':
        return v == 'true'
    if k == 'n':
        return None
    if k == 'l':
        return []
    if k == 'd':
        return {}
    raise ValueError(code)


def encode_pv(v):
    """Python scalar -> value code understood by pyval (None if not encodable)."""
    if v is None:
        return 'n:'
    if isinstance(v, bool):
        return 'b:true' if v else 'b:false'
    if isinstance(v, int):
        return 'i:{}'.format(v)
    if isinstance(v, float):
        if math.isnan(v):
            return None
        return 'f:{!r}'.format(v)
    if isinstance(v, str):
        return 's:' + v
    return None


def same(a, b):
    """Equality of scalar results: same type, equal value, NaN equals NaN."""
    if type(a) is not type(b):
        return False
    if isinstance(a, float) and math.isnan(a):
        return math.isnan(b)
    return a == b


# ------------------------------------------------------------------ model

class MNode:
    """Model node.  kind 's': text (+ pv if set through the API); 'map': list of
    [key MNode, value MNode]; 'seq': list of MNode."""
    __slots__ = ('kind', 'tag', 'value', 'pv', 'has_pv')

    def __init__(self, kind, tag, value, pv=None, has_pv=False):
        self.kind = kind
        self.tag = tag
        self.value = value
        self.pv = pv
        self.has_pv = has_pv


def model_scalar_for(v):
    """What set_attribute(name, v) stores for a Python scalar v."""
    if isinstance(v, str):
        return MNode('s', T_STR, v, v, True)
    if isinstance(v, bool):
        return MNode('s', T_BOOL, 'true' if v else 'false', v, True)
    if isinstance(v, int):
        return MNode('s', T_INT, str(v), v, True)
    if isinstance(v, float):
        return MNode('s', T_FLOAT, str(v), v, True)
    if v is None:
        return MNode('s', T_NULL, '', None, True)
    raise TypeError


def tag_for_type(v):
    if isinstance(v, bool):
        return T_BOOL
    if isinstance(v, str):
        return T_STR
    if isinstance(v, int):
        return T_INT
    if isinstance(v, float):
        return T_FLOAT
    if v is None:
        return T_NULL
    raise TypeError


def mirror(ynode, memo):
    """Model image of a real yaml node tree (aliasing preserved)."""
    import yaml
    if id(ynode) in memo:
        return memo[id(ynode)]
    if isinstance(ynode, yaml.ScalarNode):
        m = MNode('s', ynode.tag, ynode.value)
    elif isinstance(ynode, yaml.SequenceNode):
        m = MNode('seq', ynode.tag, [])
        memo[id(ynode)] = m
        m.value = [mirror(x, memo) for x in ynode.value]
    else:
        m = MNode('map', ynode.tag, [])
        memo[id(ynode)] = m
        m.value = [[mirror(k, memo), mirror(v, memo)] for k, v in ynode.value]
    memo[id(ynode)] = m
    return m


def view_model(m, depth=0):
    if depth > 8:
        return ['deep']
    if m.kind == 's':
        return ['s', m.tag, m.value]
    if m.kind == 'seq':
        return ['seq', m.tag, [view_model(x, depth + 1) for x in m.value]]
    return ['map', m.tag, [[view_model(k, depth + 1), view_model(v, depth + 1)] for k, v in m.value]]


def view_real(n, depth=0):
    import yaml
    if depth > 8:
        return ['deep']
    if isinstance(n, yaml.ScalarNode):
        return ['s', n.tag, n.value]
    if isinstance(n, yaml.SequenceNode):
        return ['seq', n.tag, [view_real(x, depth + 1) for x in n.value]]
    if isinstance(n, yaml.MappingNode):
        return ['map', n.tag, [[view_real(k, depth + 1), view_real(v, depth + 1)] for k, v in n.value]]
    return ['notanode', type(n).__name__]


def reaches(m, target, seen=None):
    if seen is None:
        seen = set()
    if m is target:
        return True
    if id(m) in seen:
        return False
    seen.add(id(m))
    if m.kind == 'seq':
        return any(reaches(x, target, seen) for x in m.value)
    if m.kind == 'map':
        return any(reaches(k, target, seen) or reaches(v, target, seen) for k, v in m.value)
    return False


_REF = None


def ref_construct(tag, text):
    """What a load constructs from a scalar with this (resolved) tag and text.

    PyYAML's own SafeConstructor methods are the reference ("integer, null and
    timestamp typing is PyYAML's"); returns (ok, value)."""
    global _REF
    import yaml
    if _REF is None:
        _REF = yaml.constructor.SafeConstructor()
    node = yaml.ScalarNode(tag, text)
    try:
        if tag == T_STR:
            return True, text
        if tag == T_INT:
            return True, _REF.construct_yaml_int(node)
        if tag == T_FLOAT:
            return True, _REF.construct_yaml_float(node)
        if tag == T_BOOL:
            return True, _REF.construct_yaml_bool(node)
        if tag == T_NULL:
            return True, None
    except Exception:
        return False, None
    return False, None


def model_pv(m):
    """(known, python value) of a model scalar."""
    if m.has_pv:
        return True, m.pv
    return ref_construct(m.tag, m.value)


class Handle:
    __slots__ = ('real', 'model', 'parent', 'key')

    def __init__(self, real, model, parent=None, key=None):
        self.real = real        # yatiml.Node
        self.model = model      # MNode
        self.parent = parent    # Handle it was obtained from (get_attribute), or None
        self.key = key


TYPE_CODES = {'str': str, 'int': int, 'float': float, 'bool': bool, 'None': None,
              'NoneType': type(None), 'list': list, 'dict': dict,
              'bytes': bytes, 'set': set, 'object': object}
TABLE_TYPES = ('str', 'int', 'float', 'bool', 'None', 'list', 'dict')


def type_matches_model(tcode, m):
    """Docstring table of has_attribute_type."""
    if tcode == 'list':
        return m.kind == 'seq'
    if tcode == 'dict':
        return m.kind == 'map'
    want = {'str': T_STR, 'int': T_INT, 'float': T_FLOAT, 'bool': T_BOOL,
            'None': T_NULL, 'NoneType': T_NULL}[tcode]
    return m.tag == want


class Mismatch(Exception):
    def __init__(self, rule, what, detail):
        super().__init__(what)
        self.rule = rule
        self.what = what
        self.detail = detail


class NodeModel(Engine):
    name = 'nodemodel'
    prop = 'C14'
    level = 'exploration'

    def worker_init(self, tier):
        import yatiml
        self.loader_cls = yatiml.load_function().loader
        self.classes = {}

    def budget(self, tier):
        if tier == 'quick':
            return {'wall_s': 50, 'max_examples': 100}
        return {'wall_s': 840, 'max_examples': 200}

    # ------------------------------------------------------------ strategy
    def strategy(self, tier):
        from hypothesis import strategies as st
        from sim import universe as U

        keys = KEYS

        def scalars():
            # (other core-schema tags too: !!binary; plain '=' and '<<' resolve to
            # the value and merge tags)
            return st.builds(lambda t, tag: {'t': 's', 'v': t, 'q': False, 'tag': tag},
                             st.sampled_from(PLAIN_SPELLINGS),
                             st.sampled_from([None] * 14 + ['!!binary', '!!str']))

        def trees(depth):
            if depth <= 0:
                return scalars()
            sub = trees(depth - 1)
            return st.one_of(
                scalars(), scalars(),
                st.builds(lambda xs, tag: {'t': 'seq', 'v': xs, 'tag': tag}, st.lists(sub, max_size=3),
                          st.sampled_from([None] * 12 + ['!!omap', '!!pairs'])),
                st.builds(lambda ks, vs, tag: {'t': 'map', 'tag': tag,
                                               'v': [[U.S(k), v] for k, v in zip(ks, vs)]},
                          st.permutations(keys), st.lists(sub, max_size=4),
                          st.sampled_from([None] * 12 + ['!!set'])))

        opt = st.tuples(st.integers(0, len(OP_TABLE) - 1), st.integers(0, 11),
                        st.integers(0, 63), st.integers(0, 4095))

        @st.composite
        def plan(draw):
            root = draw(st.one_of(
                st.builds(lambda ks, vs: {'t': 'map', 'tag': None,
                                          'v': [[U.S(k), v] for k, v in zip(ks, vs)]},
                          st.permutations(keys), st.lists(trees(2), min_size=0, max_size=6)),
                st.builds(lambda ks, vs: {'t': 'map', 'tag': None,
                                          'v': [[U.S(k), v] for k, v in zip(ks, vs)]},
                          st.permutations(keys), st.lists(trees(2), min_size=2, max_size=6)),
                st.builds(lambda ks, vs: {'t': 'map', 'tag': None,
                                          'v': [[U.S(k), v] for k, v in zip(ks, vs)]},
                          st.permutations(keys), st.lists(trees(1), min_size=3, max_size=6)),
                trees(2)))
            style = draw(st.sampled_from(['block', 'flow']))
            doc = U.write_doc(root, style)
            ops_ = draw(st.lists(opt, min_size=4, max_size=30 if tier == 'quick' else 60))
            return {'doc': doc, 'ops': [list(o) for o in ops_]}
        return plan()

    # ------------------------------------------------------------- classes
    def make_class(self, cl):
        key = canon.short(cl)
        if key in self.classes:
            return self.classes[key]
        params, used = [], set()
        for p, d in cl['params']:
            ident = p.replace('-', '_')
            if ident in used or not ident.isidentifier():
                continue    # two keys mapping to one identifier: no such class exists
            if unicodedata.normalize('NFKC', ident) != ident:
                continue    # Python itself would rename this parameter (PEP 3131)
            used.add(ident)
            params.append((p, d))
        req = [p for p, d in params if d == 'req']
        opt = [(p, d) for p, d in params if d != 'req']
        dvals = [pyval(d) for p, d in opt]
        sig = ['self'] + [p.replace('-', '_') for p in req] + [
            '{}=_d[{}]'.format(p.replace('-', '_'), i) for i, (p, d) in enumerate(opt)]
        # shapes of class whose constructor parameters still are those of __init__:
        # an own __new__ (instance counting, interning), a metaclass with __call__
        shape = cl.get('shape')
        head, extra_body = 'class K:\n', ''
        if shape == 'new':
            extra_body = '    def __new__(cls, *args, **kwargs):\n        return super().__new__(cls)\n'
        elif shape == 'new_named':
            extra_body = ('    def __new__(cls, other=7, *args, **kwargs):\n'
                          '        return super().__new__(cls)\n')
        elif shape == 'meta':
            head = ('class M(type):\n    def __call__(cls, *args, **kwargs):\n'
                    '        return super().__call__(*args, **kwargs)\n'
                    'class K(metaclass=M):\n')
        src = head + extra_body + '    def __init__({}):\n        pass\n'.format(', '.join(sig))
        ovals = {p.replace('-', '_'): pyval(d) for p, d in cl['override'].items()}
        if cl['override']:
            src += '    _yatiml_defaults = _o\n'
        ns = {'_d': dvals, '_o': ovals}
        exec(compile(src, '<simgen:c14cls>', 'exec'), ns)
        src += '# _d = {!r}; _o = {!r}\n'.format(dvals, ovals)
        defaults = {p.replace('-', '_'): pyval(d) for p, d in opt}
        base_defaults = dict(defaults)
        for p, d in cl['override'].items():
            if p.replace('-', '_') in defaults:
                defaults[p.replace('-', '_')] = pyval(d)
        target, sibling = ns['K'], None
        if cl.get('sibling'):
            # class KS(K) inherits K.__init__ and carries its own _yatiml_defaults
            # (which shadows K's, as hasattr/getattr on the class see it)
            svals = {p.replace('-', '_'): pyval(d) for p, d in cl['sibling'].items()}
            ks = type('KS', (ns['K'],), {'_yatiml_defaults': svals})
            src += '# class KS(K): _yatiml_defaults = {!r}; target = {}\n'.format(
                svals, cl.get('target'))
            if cl.get('target') == 'sub':
                target, sibling = ks, ns['K']
                defaults = dict(base_defaults)
                for p, v in svals.items():
                    if p in defaults:
                        defaults[p] = v
            else:
                sibling = ks
        out = (target, defaults, src, sibling)
        self.classes[key] = out
        return out

    # ------------------------------------------------------------- execute
    def execute(self, plan, stats):
        import yaml
        import yatiml
        try:
            ld = self.loader_cls(plan['doc'])
            ynode = yaml.SafeLoader.get_single_node(ld)
        except yaml.YAMLError:
            stats.count('initial_document_unparseable')
            return []
        finally:
            try:
                ld.dispose()
            except Exception:
                pass
        if ynode is None:
            stats.count('initial_document_empty')
            return []
        root_model = mirror(ynode, {})
        handles = [Handle(yatiml.Node(ynode), root_model)]
        fresh_names = ['n0', 'n1', 'n2', 'n3', 'n4', 'n5']
        self._last_name = None      # the key the previous operation named
        mutations = 0
        executed = []
        try:
            for i, raw in enumerate(plan['ops']):
                op = self.resolve(raw, handles)
                if op is None:
                    stats.count('ops_skipped_not_applicable')
                    continue
                name = self.step(op, handles, stats, fresh_names)
                if name is None:
                    stats.count('ops_skipped_not_applicable')
                    continue
                executed.append(name)
                stats.count('op:' + name)
                if name in ('set_attribute', 'remove_attribute', 'rename_attribute', 'set_value',
                            'make_mapping', 'remove_defaults'):
                    mutations += 1
                # cross-invariant: every live handle shows the model's view
                for hi, h in enumerate(handles):
                    vr = view_real(h.real.yaml_node)
                    vm = view_model(h.model)
                    if vr != vm:
                        raise Mismatch(name, 'view', {
                            'after_op_index': i, 'handle': hi, 'real_view': vr, 'model_view': vm})
                if mutations >= 2:
                    stats.seen('nontrivial', canon.short([view_model(h.model) for h in handles]))
        except Mismatch as m:
            return [{'oracle': 'yatiml.Node behaves like the ordered-map / typed-scalar model',
                     'signature': {'engine': 'nodemodel', 'rule': m.rule, 'what': m.what,
                                   'cls': m.detail.get('text_class') or m.detail.get('exc_class')},
                     'detail': dict(m.detail, executed=executed[-12:], doc=plan['doc'])}]
        if len(handles) > 1 and mutations >= 2:
            stats.sample({'doc': plan['doc'], 'ops': executed[:30], 'handles': len(handles)})
        stats.count('histories_completed')
        stats.count('ops_executed', len(executed))
        return []

    def resolve(self, raw, handles):
        """Compact op [code, h, k, v] -> op dict, given the current handles.

        The handle index selects among the handles the operation is documented
        for (mapping operations among mapping handles, ...), so that few
        operations are wasted; everything is a deterministic function of the
        plan and the state."""
        code, hsel, ksel, vsel = raw
        kind = OP_TABLE[code % len(OP_TABLE)]
        if kind in MAP_OPS:
            cands = [i for i, h in enumerate(handles) if h.model.kind == 'map']
        elif kind in ('get_value',):
            cands = [i for i, h in enumerate(handles) if h.model.kind == 's']
        elif kind == 'seq_items':
            cands = [i for i, h in enumerate(handles) if h.model.kind == 'seq']
        elif kind == 'is_empty':
            cands = [i for i, h in enumerate(handles) if h.model.kind != 's']
        else:
            cands = list(range(len(handles)))
        if not cands:
            return None
        # favour the first candidates (the root and early handles) a little
        h = cands[hsel % len(cands)] if hsel < 8 else cands[0]
        op = {'op': kind, 'h': h}
        if ksel % 4 < 3:
            op['k'] = ['idx', ksel // 4]
        elif ksel % 8 == 7:
            op['k'] = ['last', ABSENT[(ksel // 4) % len(ABSENT)]]
        else:
            op['k'] = ['name', ABSENT[(ksel // 4) % len(ABSENT)]]
        if kind == 'set_attribute':
            n = vsel % 48
            if n < 30:
                op['v'] = ['py', PY_VALUES[n % len(PY_VALUES)]]
            elif n < 40:
                op['v'] = ['handle', n - 30]
            elif n < 47:
                op['v'] = ['text', TEXT_VALUES[n - 40]]
            else:
                op['v'] = ['bad', 'object']
        elif kind == 'set_value':
            op['v'] = PY_VALUES[vsel % len(PY_VALUES)]
        elif kind == 'rename_attribute':
            op['n'] = vsel
        elif kind in ('has_attribute_type',):
            op['t'] = TYPE_LIST[vsel % len(TYPE_LIST)]
        elif kind == 'is_scalar':
            op['t'] = ([None] + TYPE_LIST)[vsel % (len(TYPE_LIST) + 1)]
        elif kind == 'remove_defaults':
            # a class whose defaults are derived from the mapping's current
            # content: per key, 0 = default equal to the current value,
            # 1 = another default, 2 = required, 3 = None
            m = handles[h].model
            params = []
            for i, (k, v) in enumerate(m.value[:6]):
                if k.kind != 's':
                    continue
                choice = (vsel >> (2 * (i % 4))) & 3
                if choice == 2:
                    params.append([k.value, 'req'])
                elif choice == 3:
                    params.append([k.value, 'n:'])
                elif choice == 1:
                    params.append([k.value, DEFAULTS[(vsel + i) % len(DEFAULTS)]])
                else:
                    known, pv = (False, None)
                    if v.kind == 's' and v.tag in SCALAR_TAGS:
                        known, pv = model_pv(v)
                    code_ = encode_pv(pv) if known else None
                    params.append([k.value, code_ or DEFAULTS[(vsel + i) % len(DEFAULTS)]])
            params.append(['other', DEFAULTS[vsel % len(DEFAULTS)]])
            op['cl'] = {'params': params, 'override': {}}
            if vsel & 64 and params:
                p = params[vsel % len(params)][0]
                op['cl']['override'][p] = DEFAULTS[(vsel // 3) % len(DEFAULTS)]
            if vsel & 128 and params:
                # a sibling class that shares the __init__ (inherits it) and has its own
                # _yatiml_defaults is sweetened first, on an unrelated empty node
                p = params[(vsel // 5) % len(params)][0]
                op['cl']['sibling'] = {p: DEFAULTS[(vsel // 7) % len(DEFAULTS)]}
                op['cl']['target'] = 'sub' if vsel & 256 else 'base'
            shape = {0: None, 1: 'new', 2: 'meta', 3: 'new_named'}[(vsel >> 9) & 3]
            if shape and vsel & 2048:
                op['cl']['shape'] = shape
        return op

    def pick_key(self, sel, m, fresh_names):
        """-> (key text, present?)"""
        keys = [k.value for k, _ in m.value]
        if sel[0] == 'idx':
            if keys:
                self._last_name = keys[sel[1] % len(keys)]
                return keys[sel[1] % len(keys)], True
            return 'zz', False
        if sel[0] == 'last' and self._last_name is not None:
            # the name the previous operation used (after a rename or removal: the old name)
            return self._last_name, self._last_name in keys
        self._last_name = sel[1]
        return sel[1], sel[1] in keys

    def step(self, op, handles, stats, fresh_names):
        import yaml
        import yatiml
        h = handles[op['h'] % len(handles)]
        node, m = h.real, h.model
        kind = op['op']

        def call(f, *a):
            try:
                return ('ok', f(*a))
            except Exception as e:
                return ('exc', e)

        def expect_value(res, want, what, extra=None):
            if res[0] != 'ok' or not same(res[1], want):
                raise Mismatch(kind, what, dict(extra or {}, want=repr(want), got=repr(res[1])[:200],
                                                raised=res[0] == 'exc'))

        def expect_none(res, what, extra=None):
            if res[0] != 'ok' or res[1] is not None:
                raise Mismatch(kind, what, dict(extra or {}, got=repr(res[1])[:200], raised=res[0] == 'exc'))

        if kind in ('has_attribute', 'get_attribute', 'set_attribute', 'remove_attribute',
                    'rename_attribute', 'has_attribute_type', 'remove_defaults'):
            if m.kind != 'map':
                return None     # "Use only if is_mapping() returns True"
            keys = [k.value for k, _ in m.value]
            if len(set(keys)) != len(keys) or any(k.kind != 's' for k, _ in m.value):
                return None     # the statement covers distinct scalar keys only

        if kind == 'has_attribute':
            key, present = self.pick_key(op['k'], m, fresh_names)
            expect_value(call(node.has_attribute, key), present, 'result', {'key': key})
            return kind

        if kind == 'get_attribute':
            key, present = self.pick_key(op['k'], m, fresh_names)
            res = call(node.get_attribute, key)
            if present:
                if res[0] != 'ok' or not isinstance(res[1], yatiml.Node):
                    raise Mismatch(kind, 'present-key', {'key': key, 'got': repr(res[1])[:200]})
                mv = [v for k, v in m.value if k.value == key][0]
                if len(handles) < 10:
                    handles.append(Handle(res[1], mv, h, key))
                else:
                    handles[1 + op['h'] % 9] = Handle(res[1], mv, h, key)
                if view_real(res[1].yaml_node) != view_model(mv):
                    raise Mismatch(kind, 'view', {'key': key})
            else:
                if res[0] != 'exc' or not isinstance(res[1], (yatiml.SeasoningError, KeyError)):
                    raise Mismatch(kind, 'absent-key-not-reported',
                                   {'key': key, 'got': repr(res[1])[:200]})
            return kind

        if kind == 'set_attribute':
            key, present = self.pick_key(op['k'], m, fresh_names)
            v = op['v']
            if v[0] == 'py':
                pv = pyval(v[1])
                arg, mval = pv, model_scalar_for(pv)
            elif v[0] == 'handle':
                src = handles[v[1] % len(handles)]
                if reaches(src.model, m):
                    return None     # would create a cycle
                arg, mval = src.real.yaml_node, src.model
            elif v[0] == 'text':
                arg = yaml.compose(v[1], Loader=yaml.SafeLoader)
                mval = mirror(arg, {})
            else:
                res = call(node.set_attribute, key, object())
                if res[0] != 'exc' or not isinstance(res[1], TypeError):
                    raise Mismatch(kind, 'invalid-value-not-rejected', {'got': repr(res[1])[:200]})
                return kind
            expect_none(call(node.set_attribute, key, arg), 'result', {'key': key, 'value': v})
            if v[0] in ('handle', 'text'):
                # an ordered dict stores the very object it is given
                stored = [vn for kn, vn in node.yaml_node.value
                          if isinstance(kn, yaml.ScalarNode) and kn.value == key]
                if len(stored) != 1 or stored[0] is not arg:
                    raise Mismatch(kind, 'node-value-not-stored-by-identity',
                                   {'key': key, 'value': v, 'slots_with_key': len(stored)})
                stats.count('set_attribute:identity-checked')
            if present:
                for pair in m.value:
                    if pair[0].value == key:
                        pair[1] = mval
                        break
            else:
                m.value.append([MNode('s', T_STR, key), mval])
            return kind

        if kind == 'remove_attribute':
            key, present = self.pick_key(op['k'], m, fresh_names)
            expect_none(call(node.remove_attribute, key), 'result', {'key': key})
            m.value[:] = [p for p in m.value if p[0].value != key]
            return kind

        if kind == 'rename_attribute':
            key, present = self.pick_key(op['k'], m, fresh_names)
            keys = [k.value for k, _ in m.value]
            new = [n for n in fresh_names if n not in keys]
            if not new:
                return None
            new = new[op['n'] % len(new)]
            expect_none(call(node.rename_attribute, key, new), 'result', {'key': key, 'new': new})
            for pair in m.value:
                if pair[0].value == key:
                    pair[0].value = new
                    break
            return kind

        if kind == 'has_attribute_type':
            key, present = self.pick_key(op['k'], m, fresh_names)
            tcode = op['t']
            res = call(node.has_attribute_type, key, TYPE_CODES[tcode])
            valid = tcode in TABLE_TYPES
            if tcode == 'NoneType':
                return None     # the table lists None, not type(None): unspecified
            if not present:
                if valid:
                    expect_value(res, False, 'absent', {'key': key, 'type': tcode})
                elif not (res == ('ok', False) or res[0] == 'exc' and isinstance(res[1], ValueError)):
                    raise Mismatch(kind, 'absent-invalid-type', {'got': repr(res[1])[:200]})
                return kind
            mv = [v for k, v in m.value if k.value == key][0]
            if valid:
                expect_value(res, type_matches_model(tcode, mv), 'table',
                             {'key': key, 'type': tcode, 'node': view_model(mv)[:2]})
            else:
                if res[0] != 'exc' or not isinstance(res[1], ValueError):
                    raise Mismatch(kind, 'invalid-type-not-rejected',
                                   {'type': tcode, 'got': repr(res[1])[:200]})
            return kind

        if kind == 'is_scalar':
            tcode = op['t']
            if tcode is None:
                expect_value(call(node.is_scalar), m.kind == 's', 'untyped')
                return kind
            if tcode in ('list', 'dict'):
                valid = False
            else:
                valid = tcode in TABLE_TYPES or tcode == 'NoneType'
            res = call(node.is_scalar, TYPE_CODES[tcode])
            if m.kind != 's':
                if valid:
                    expect_value(res, False, 'non-scalar', {'type': tcode})
                elif not (res == ('ok', False) or res[0] == 'exc' and isinstance(res[1], ValueError)):
                    raise Mismatch(kind, 'non-scalar-invalid-type', {'got': repr(res[1])[:200]})
                return kind
            if valid:
                expect_value(res, type_matches_model(tcode, m), 'typed',
                             {'type': tcode, 'node': view_model(m)})
            else:
                if res[0] != 'exc' or not isinstance(res[1], ValueError):
                    raise Mismatch(kind, 'invalid-type-not-rejected',
                                   {'type': tcode, 'got': repr(res[1])[:200]})
            return kind

        if kind == 'is_mapping':
            expect_value(call(node.is_mapping), m.kind == 'map', 'result')
            return kind

        if kind == 'is_sequence':
            expect_value(call(node.is_sequence), m.kind == 'seq', 'result')
            return kind

        if kind in ('set_value', 'make_mapping'):
            # The handle is re-bound to a new node.  Whether the slot it was
            # obtained from sees that is not stated, so the documented idiom is
            # applied at once: parent.set_attribute(key, handle.yaml_node).
            if not m.tag.startswith(CORE):
                return None
            parent = h.parent
            if parent is not None:
                pm = parent.model
                if pm.kind != 'map' or [k.value for k, _ in pm.value].count(h.key) != 1:
                    return None
                # other handles on the same node keep the old node; fine
            if kind == 'set_value':
                pv = pyval(op['v'])
                expect_none(call(node.set_value, pv), 'result', {'value': op['v']})
                newm = MNode('s', tag_for_type(pv), 'true' if pv is True else 'false' if pv is False
                             else str(pv), pv, True)
            else:
                expect_none(call(node.make_mapping), 'result')
                newm = MNode('map', CORE + 'map', [])
            h.model = newm
            if parent is not None:
                # parent slot must not already contain the target in a cycle: new node is fresh
                expect_none(call(parent.real.set_attribute, h.key, node.yaml_node), 'reattach')
                for pair in parent.model.value:
                    if pair[0].value == h.key:
                        pair[1] = newm
                        break
            if kind == 'set_value':
                res = call(node.is_scalar, type(pv) if pv is not None else None)
                expect_value(res, True, 'is_scalar-after-set_value', {'value': op['v']})
                expect_value(call(node.get_value), pv, 'get-after-set', {'value': op['v']})
            else:
                expect_value(call(node.is_mapping), True, 'is_mapping-after-make_mapping')
                expect_value(call(node.is_empty), True, 'is_empty-after-make_mapping')
            return kind

        if kind == 'get_value':
            if m.kind != 's' or m.tag not in SCALAR_TAGS:
                return None
            known, want = model_pv(m)
            if not known:
                return None
            res = call(node.get_value)
            if res[0] != 'ok' or not same(res[1], want):
                what = 'set-then-get' if m.has_pv else 'parsed-scalar'
                raise Mismatch(kind, what, {
                    'tag': m.tag, 'text': m.value, 'want': repr(want),
                    'got': repr(res[1])[:200], 'raised': res[0] == 'exc',
                    'text_class': spelling_class(m.tag, m.value)})
            stats.count('get_value:' + ('api' if m.has_pv else 'parsed'))
            return kind

        if kind == 'is_empty':
            if m.kind == 's':
                return None
            expect_value(call(node.is_empty), len(m.value) == 0, 'result')
            return kind

        if kind == 'seq_items':
            if m.kind != 'seq':
                return None
            res = call(node.seq_items)
            if res[0] != 'ok' or not isinstance(res[1], list) or len(res[1]) != len(m.value):
                raise Mismatch(kind, 'result', {'got': repr(res[1])[:200]})
            for item, mi in zip(res[1], m.value):
                if not isinstance(item, yatiml.Node) or view_real(item.yaml_node) != view_model(mi):
                    raise Mismatch(kind, 'item-view', {})
            for item, mi in list(zip(res[1], m.value))[:2]:
                if len(handles) < 10:
                    handles.append(Handle(item, mi, None, None))
            return kind

        if kind == 'remove_defaults':
            cls, defaults, src, sibling = self.make_class(op['cl'])
            if sibling is not None:
                # sweetening an unrelated (empty) node of the sibling class first must
                # not influence what happens to this node
                scratch = yatiml.Node(yaml.MappingNode(CORE + 'map', []))
                r0 = call(scratch.remove_attributes_with_default_values, sibling)
                if r0[0] != 'ok':
                    raise Mismatch(kind, 'raised', {
                        'exception': type(r0[1]).__name__, 'text': str(r0[1])[:200],
                        'class_source': src, 'exc_class': type(r0[1]).__name__, 'on': 'empty sibling node'})
                stats.count('remove_defaults:with-sibling-class')
            before = [(k.value, v) for k, v in m.value]
            must_remove, must_keep = set(), set()
            for key, mv in before:
                if key not in defaults:
                    must_keep.add(key)
                    continue
                d = defaults[key]
                if mv.kind != 's':
                    if not isinstance(d, (list, dict)):
                        must_keep.add(key)
                    continue
                if mv.tag not in SCALAR_TAGS:
                    continue
                known, pv = model_pv(mv)
                if not known:
                    continue
                if isinstance(pv, float) and math.isnan(pv):
                    continue
                if isinstance(d, (list, dict)):
                    must_keep.add(key)
                    continue
                if type(pv) is type(d):
                    (must_remove if pv == d else must_keep).add(key)
                elif isinstance(pv, (bool, int, float)) and isinstance(d, (bool, int, float)):
                    continue    # cross-type numeric coincidences: unspecified
                else:
                    must_keep.add(key)
            res = call(node.remove_attributes_with_default_values, cls)
            if res[0] != 'ok':
                bad = [(k, view_model(v)[1:], repr(defaults.get(k))) for k, v in before
                       if k in defaults][:4]
                raise Mismatch(kind, 'raised', {
                    'exception': type(res[1]).__name__, 'text': str(res[1])[:200],
                    'class_source': src, 'defaulted_pairs': bad,
                    'exc_class': type(res[1]).__name__})
            after = [k.value for k, _ in node.yaml_node.value]
            missing_keep = [k for k in must_keep if k not in after]
            left_remove = [k for k in must_remove if k in after]
            order_ok = after == [k for k, _ in before if k in after]
            if missing_keep or left_remove or not order_ok:
                raise Mismatch(kind, 'band', {
                    'removed_but_must_keep': missing_keep, 'kept_but_must_remove': left_remove,
                    'order_kept': order_ok, 'class_source': src,
                    'before': [(k, view_model(v)) for k, v in before][:8], 'after': after})
            m.value[:] = [p for p in m.value if p[0].value in after]
            stats.count('remove_defaults:removed', len(before) - len(after))
            return kind

        raise ValueError(kind)

    def evidence(self, stats, tier):
        c = stats.counters
        opsd = {k[3:]: v for k, v in c.items() if k.startswith('op:')}
        cov = {
            'evaluations': c.get('evaluations', 0),
            'distinct_nontrivial': len(stats.distinct.get('nontrivial', ())),
            'rule': ('A case is an initial YAML document (composed with yatiml\'s patched resolvers) plus a '
                     'list of up to 30 (thorough: 60) operations addressed to handles (yatiml.Node objects on '
                     'the root, on attribute values, on sequence items, several on the same node); after every '
                     'operation its result/exception class and the plain view (kind, tag, value | ordered pairs) '
                     'of every live handle are compared with the reference model. distinct_nontrivial counts '
                     'distinct model states (hash of the views of all handles) reached after at least two '
                     'mutating operations.'),
            'samples': stats.samples[:6],
            'histories_completed': c.get('histories_completed', 0),
            'operations_executed': c.get('ops_executed', 0),
            'operations_by_kind': opsd,
            'operations_skipped_outside_documented_use': c.get('ops_skipped_not_applicable', 0),
            'get_value_checks': {'after_api_set': c.get('get_value:api', 0),
                                 'freshly_parsed_scalars': c.get('get_value:parsed', 0)},
            'attributes_removed_by_default_sweeps': c.get('remove_defaults:removed', 0),
            'initial_documents_unparseable_or_empty': c.get('initial_document_unparseable', 0) + c.get(
                'initial_document_empty', 0),
            'faults_injected': 'none: yatiml.Node does no I/O, takes no callbacks and is not shared between '
                               'threads by any documented use; this check explores histories only',
            'simulated_time': 'not applicable; logical steps are Node operations',
            'real_vs_stub': dict(REAL_STUB, **{'reference': 'ordered-map / typed-scalar model (sim/engines/nodemodel.py)',
                                               'scalar reference': 'PyYAML SafeConstructor.construct_yaml_int/float/bool'}),
            'exhaustive': False,
        }
        return {'coverage': cov, 'assumptions': [
            'Model semantics are written from the docstrings; where the documentation is two-sided the model '
            'accepts both (absent key in get_attribute: SeasoningError or KeyError; invalid type on an absent '
            'attribute / non-scalar: False or ValueError; cross-type numeric default coincidences: either).',
            'Operations are applied only where the docstring allows them ("use only if is_mapping()..."), on '
            'mappings with distinct scalar keys.',
            'set_value/make_mapping re-bind the handle; the documented idiom parent.set_attribute(key, '
            'handle.yaml_node) is applied at once, so the unspecified intermediate state is never compared.',
        ]}


def spelling_class(tag, text):
    if tag == T_INT:
        t = text.lstrip('+-')
        if ':' in t:
            return 'int-sexagesimal'
        if t.startswith('0x'):
            return 'int-hex'
        if t.startswith('0b'):
            return 'int-binary'
        if t.startswith('0o'):
            return 'int-0o-octal'
        if '_' in t:
            return 'int-underscore'
        if len(t) > 1 and t.startswith('0'):
            return 'int-yaml11-octal'
        return 'int-decimal'
    if tag == T_FLOAT:
        t = text.lstrip('+-').lower()
        if t == '.inf':
            return 'float-inf'
        if t == '.nan':
            return 'float-nan'
        return 'float-decimal'
    return tag[len(CORE):]
