"""C12: every source and sink kind gives the same result.

fault_enumeration over the I/O seam: for one generated case the engine
enumerates source/sink kinds x chunk schedules (fault-free configuration, strict
oracle) and, separately, single I/O faults at enumerated offsets (fault
configuration, deliberately relaxed oracle).
"""
import io
import locale
import os
import pathlib

from sim import canon, ops, simio
from sim import universe as U
from sim.engines import REAL_STUB, Engine
from sim.engines.cbfault import NamespaceCache

INDENTS = [None, 0, 1, 2, 4, 8]


def boundary_class(data, k, binary):
    """Classifies split offset k of data (bytes if binary else str)."""
    n = len(data)
    if k <= 0:
        return 'start'
    if k >= n:
        return 'eof'
    if k == n - 1:
        return 'eof-1'
    if binary:
        if data[k] & 0xC0 == 0x80:
            return 'inside-multibyte'
        a, b = data[k - 1:k], data[k:k + 1]
    else:
        a, b = data[k - 1], data[k]
        if ord(b) > 0xffff or ord(a) > 0xffff:
            return 'next-to-astral'
        a, b = a.encode('utf-8', 'replace'), b.encode('utf-8', 'replace')
    if a == b'\r' and b == b'\n':
        return 'between-CR-LF'
    if a in (b'\n', b'\r'):
        return 'line-start'
    if b in (b'\n', b'\r'):
        return 'line-end'
    if a.isalnum() and b.isalnum():
        return 'inside-token'
    return 'other'


def interesting_offsets(data, binary, cap):
    """Split offsets: all when affordable, else every interesting one + spread."""
    n = len(data)
    allk = list(range(1, n))
    if len(allk) <= cap:
        return allk
    keep = []
    for k in allk:
        bc = boundary_class(data, k, binary)
        if bc in ('inside-multibyte', 'between-CR-LF', 'next-to-astral', 'eof-1'):
            keep.append(k)
    # block boundaries of the readers involved
    for blk in (4096, 8192):
        for m in range(1, n // blk + 1):
            for d in (-2, -1, 0, 1, 2):
                if 0 < m * blk + d < n:
                    keep.append(m * blk + d)
    keep = sorted(set(keep))
    if len(keep) > cap:
        step = len(keep) / float(cap)
        keep = [keep[int(i * step)] for i in range(cap)]
    rest = cap - len(keep)
    if rest > 0:
        step = max(1, n // (rest + 1))
        keep = sorted(set(keep + allk[::step][:rest]))
    return keep


class IoSim(Engine):
    name = 'iosim'
    prop = 'C12'
    level = 'fault_enumeration'

    def worker_init(self, tier):
        enc = locale.getencoding().lower().replace('-', '')
        if enc != 'utf8':
            raise RuntimeError('C12 is decided for a UTF-8 locale only, got ' + enc)
        self.cache = NamespaceCache()
        self.mount = simio.Mount()
        self.tier = tier
        self.cost = 150 if tier == 'quick' else 600     # loads/dumps per configuration
        # deterministic cost guard, in Python function calls (ops.call_cost)
        self.call_budget = 8000000 if tier == 'quick' else 40000000
        self.max_calls = 400000 if tier == 'quick' else 1500000

    def worker_exit(self):
        self.mount.destroy()

    def budget(self, tier):
        if tier == 'quick':
            return {'wall_s': 55, 'max_examples': 10}
        return {'wall_s': 840, 'max_examples': 20}

    # ------------------------------------------------------------ strategy
    def strategy(self, tier):
        from hypothesis import strategies as st
        from sim import plans

        @st.composite
        def chunk_lists(draw):
            n = draw(st.integers(1, 4))
            return [draw(st.sampled_from([1, 1, 2, 3, 5, 7, 16, 64, 4095, 4096, 4097]))
                    for _ in range(n)]

        @st.composite
        def plan(draw):
            spec = draw(plans.specs('s0', max_classes=4))
            names = [c['name'] for c in spec['classes']]
            order = list(draw(st.permutations(names)))
            # how a file on the mount is named: plainly, through a sub-directory, through a
            # symlinked directory followed by '..' (the OS resolves the link first), oddly
            naming = draw(st.sampled_from(['plain', 'plain', 'plain', 'subdir', 'link_dotdot', 'odd']))
            knobs = {'buffer_size': draw(st.sampled_from([None, None, 8, 64, 4096])),
                     'text_chunk': draw(st.sampled_from([None, None, 1, 5, 32, 4096]))}
            chunks = [draw(chunk_lists()) for _ in range(draw(st.integers(1, 3)))]
            if draw(st.booleans()):
                root = draw(st.sampled_from(plans.root_types(spec)))
                doc, val, cs = draw(plans.doc_texts(spec, root, p_corrupt=0.35))
                nl = draw(st.sampled_from(['\n', '\n', '\n', '\r\n', '\r']))
                if nl != '\n':
                    doc = doc.replace('\n', nl)
                pre = draw(st.sampled_from(['', '', '', '', '﻿', '# cömment \U0001f600\n',
                                            '\uff21\uff22', '\ufefb', '\uf8ff', '\ufffd', '\ufeff\ufeff', '--- \n', '%YAML 1.1\n---\n']))
                doc = pre + doc
                pad = draw(st.sampled_from([0] * 12 + [4096, 8192, 12288, 16384]))
                if pad:
                    # a comment block whose multi-byte characters straddle the
                    # 4096/8192 block boundaries of the readers involved
                    jitter = draw(st.integers(-6, 6))
                    ch = draw(st.sampled_from(['é', '中', '\U0001f600', 'xé']))
                    line = '# ' + ch * 30 + nl
                    target = pad + jitter - len(doc.encode('utf-8'))
                    block = ''
                    while len((block + line).encode('utf-8')) <= max(target, 0):
                        block += line
                    doc = block + doc
                if draw(st.integers(0, 11)) == 0:
                    # a str source is YAML text, never a file name: the document is
                    # the name of a file that exists on the mount (with other content)
                    doc = '<MNT>/other.yaml' + draw(st.sampled_from(['', '', '\n']))
                    root = draw(st.sampled_from(['str', 'any', root]))
                return {'mode': 'load', 'spec': spec, 'root': root, 'order': order, 'naming': naming,
                        'doc': doc, 'knobs': knobs, 'chunks': chunks, 'corruptions': cs}
            else:
                roots = [t for t in plans.root_types(spec)
                         if plans.uses_only_registered(spec, t)]
                root = draw(st.sampled_from(roots))
                val = draw(plans.values(spec, root))
                if draw(st.integers(0, 9)) == 0:
                    val = {'k': 'odict', 'v': [['k', val], ['z', val]]}
                fn = draw(st.sampled_from(['yaml', 'json', 'json']))
                # content the target file already has: unrelated (short / longer), or an
                # earlier version of the same text (the file is being re-saved): the text
                # followed by more, a prefix of it, the text itself, same length but different
                pre = draw(st.sampled_from([None, None, 'short', 'longer', 'extends', 'extends',
                                            'prefix', 'same', 'samelen']))
                return {'mode': 'dump', 'spec': spec, 'order': order, 'value': val, 'naming': naming,
                        'fn': fn, 'knobs': knobs, 'chunks': chunks, 'preexisting': pre}
        return plan()

    @staticmethod
    def file_name(plan, base):
        return {'subdir': 'real/inner/' + base, 'link_dotdot': 'link/../' + base,
                'odd': 'sp ace ~[x]*\u00e9 ' + base}.get(plan.get('naming'), base)

    # ------------------------------------------------------------- execute
    def execute(self, plan, stats):
        self.mount.reset()
        self.mount.knobs = {k: v for k, v in plan['knobs'].items() if v}
        with self.mount:
            if plan['mode'] == 'load':
                return self.exec_load(plan, stats)
            return self.exec_dump(plan, stats)

    def violation(self, oracle, sig, detail):
        sig = dict(sig, engine='iosim')
        return {'oracle': oracle, 'signature': sig, 'detail': detail}

    # load side --------------------------------------------------------
    def exec_load(self, plan, stats):
        ns = self.cache.get(plan['spec'])
        try:
            fn = ops.make_function(ns, 'load', plan['root'], plan['order'])
        except Exception:
            stats.count('function_creation_failed')
            return []
        mount = self.mount
        docname = self.file_name(plan, 'doc.yaml')
        stats.count('cases_naming_' + str(plan.get('naming')))
        doc = plan['doc']
        if '<MNT>' in doc:
            doc = doc.replace('<MNT>', mount.dir)
            mount.put('other.yaml', b'answer: 42\n')
            stats.count('cases_document_names_an_existing_file')
        try:
            data = doc.encode('utf-8')
        except UnicodeEncodeError:
            stats.count('doc_not_encodable')
            return []
        knobs = mount.knobs
        ref, _ = ops.call(lambda: fn(doc))
        # (measured on the second call: the first one pays for cold caches in
        # typing/inspect/re, which would make the enumeration size depend on what
        # the process did before)
        rc = max(1, ops.call_cost(lambda: fn(doc)))
        if rc > self.max_calls:
            stats.count('cases_skipped_too_costly')
            return []
        refc = ops.comparable(ref)
        stats.count('cases_load')
        stats.count('ref_' + ref['status'])
        violations = []
        seen = set()
        # text-mode reading translates newlines; the text the file layer hands
        # to yatiml is what a text-mode open of the same bytes yields
        text_items = doc

        def check(kind, out, schedule, bclass, strict=True, fault=None):
            stats.count('loads')
            stats.seen('nontrivial', canon.short([kind, bclass, fault and fault[0]]))
            if fault is None or strict:
                if ops.comparable(out) != refc:
                    key = (kind, 'strict')
                    if key not in seen:
                        seen.add(key)
                        sig = {'side': 'load', 'kind': kind,
                               'config': 'fault-free' if fault is None else 'eintr',
                               'diff': self.diff_class(ref, out)}
                        if sig['diff'] == 'exception-class':
                            # which error the str source reports and which family the
                            # other kind's error belongs to (known_findings.json names
                            # one such pair; any other pair is still reported)
                            sig['str_exc'] = ref['exc']
                            sig['exc_family'] = ('yaml-syntax' if out['exc'] in (
                                'yaml.scanner.ScannerError', 'yaml.parser.ParserError',
                                'yaml.composer.ComposerError') else out['exc'])
                            sig.pop('kind')
                        violations.append(self.violation(
                            'load outcome differs between source kinds',
                            sig,
                            {'doc': plan['doc'], 'schedule': schedule, 'boundary': bclass,
                             'str_outcome': self.brief(ref), 'outcome': self.brief(out),
                             'knobs': knobs}))
            else:
                # relaxed: may raise anything; if it returns, the value is the str value
                if out['status'] == 'ok':
                    stats.count('faulted_load_returned')
                    if ref['status'] != 'ok' or out['value'] != ref['value']:
                        key = (kind, 'relaxed')
                        if key not in seen:
                            seen.add(key)
                            violations.append(self.violation(
                                'a load that met an I/O fault returned a value other than the str result',
                                {'side': 'load', 'kind': kind, 'config': 'fault', 'fault': fault[0]},
                                {'doc': plan['doc'], 'schedule': schedule, 'fault': fault,
                                 'str_outcome': self.brief(ref), 'outcome': self.brief(out)}))
                else:
                    stats.count('faulted_load_raised')

        def load_kind(kind, chunks=None, fault=None, eintr=None):
            st_ = mount.iostats = simio.IoStats()
            rawplan = {'chunks': chunks, 'fault': fault, 'eintr': eintr}
            if kind == 'path':
                p = mount.put(docname, data)
                mount.plans[p] = rawplan
                src = pathlib.Path(p)
            elif kind == 'stringio':
                src = io.StringIO(doc)
            elif kind == 'bytesio':
                src = io.BytesIO(data)
            elif kind == 'bytesio_utf16':
                # a binary stream in another encoding YAML allows (recognised by its BOM)
                src = io.BytesIO(doc.encode('utf-16'))
            elif kind == 'bytesio_utf16be':
                src = io.BytesIO(b'\xfe\xff' + doc.encode('utf-16-be'))
            elif kind == 'bytesio_utf8bom':
                src = io.BytesIO(b'\xef\xbb\xbf' + data)
            elif kind == 'textio_sim':
                src = simio.raw_stack(data, rawplan, st_, 'text', knobs)
            elif kind == 'buffered_sim':
                src = simio.raw_stack(data, rawplan, st_, 'binary', knobs)
            elif kind == 'duck_text':
                src = simio.DuckSource(text_items, chunks, st_,
                                       fault['at'] if fault else None)
            elif kind == 'duck_binary':
                src = simio.DuckSource(data, chunks, st_,
                                       fault['at'] if fault else None)
            elif kind in ('textio_after_next', 'stringio_after_readline', 'buffered_after_readline'):
                # the caller skipped a header line (by iteration / readline) and hands the
                # rest of the open stream to the load function
                header = '# header skipped by the caller\n'
                hdata = header.encode('utf-8') + data
                if kind == 'textio_after_next':
                    src = simio.raw_stack(hdata, rawplan, st_, 'text', knobs)
                    next(src)
                elif kind == 'stringio_after_readline':
                    src = io.StringIO(header + doc)
                    src.readline()
                else:
                    src = simio.raw_stack(hdata, rawplan, st_, 'binary', knobs)
                    src.readline()
            elif kind == 'realfile_text':
                p = os.path.join(mount.dir, '..', os.path.basename(mount.dir) + '.real.yaml')
                with simio._real_open(p, 'wb') as f:
                    f.write(data)
                src = simio._real_open(p, 'r', encoding='utf-8')
            elif kind == 'realfile_binary':
                p = os.path.join(mount.dir, '..', os.path.basename(mount.dir) + '.real.yaml')
                with simio._real_open(p, 'wb') as f:
                    f.write(data)
                src = simio._real_open(p, 'rb')
            else:
                raise ValueError(kind)
            try:
                out, _ = ops.call(lambda: fn(src))
            finally:
                if kind.startswith('realfile'):
                    src.close()
                    os.unlink(p)
            out['io'] = st_
            return out

        # --- fault-free configuration: kinds x chunk schedules
        kinds0 = ['path', 'stringio', 'bytesio', 'realfile_text', 'realfile_binary']
        if '\r' not in doc and not doc.startswith('\ufeff'):
            # (after a header line a BOM is no longer at the start, and text-mode newline
            # translation of the header would change what "the rest" is)
            kinds0 += ['textio_after_next', 'stringio_after_readline', 'buffered_after_readline']
        if not doc.startswith('\ufeff'):
            kinds0 += ['bytesio_utf16', 'bytesio_utf16be', 'bytesio_utf8bom']
        for kind in kinds0:
            out = load_kind(kind)
            check(kind, out, 'whole', 'whole')
            if kind == 'path' and not out['io'].opened:
                stats.count('seam_not_reached_path_open')
        chunked = [('path', True), ('textio_sim', True), ('buffered_sim', True),
                   ('duck_text', False), ('duck_binary', True)]
        schedules = [[1]] + [list(c) for c in plan['chunks']]
        cap = max(3, min(self.cost // len(chunked), self.call_budget // (10 * rc)))
        if cap < self.cost // len(chunked):
            stats.count('cases_with_cost_capped_enumeration')
        for kind, binary in chunked:
            items = data if binary else text_items
            for ch in schedules:
                out = load_kind(kind, chunks=ch)
                check(kind, out, ch, 'multi')
                stats.count('short_reads', out['io'].short_reads)
            for k in interesting_offsets(items, binary, cap):
                if self.out_of_time():
                    stats.count('cases_with_enumeration_cut_by_deadline')
                    break
                out = load_kind(kind, chunks=[k, len(items)])
                check(kind, out, [k, len(items)], boundary_class(items, k, binary))
                stats.count('short_reads', out['io'].short_reads)
        # EINTR on raw calls: the io stack retries (PEP 475); strict oracle
        for kind in ('path', 'textio_sim', 'buffered_sim'):
            for j in (0, 1, 2):
                out = load_kind(kind, chunks=[7], eintr=[j])
                if out['io'].eintr_fired:
                    stats.count('fired:eintr_read')
                    check(kind, out, 'eintr@{}'.format(j), 'eintr', strict=True, fault=('eintr', j))

        # --- fault configuration: one read error per run, relaxed oracle
        for kind, binary in chunked:
            items = data if binary else text_items
            offs = [0] + interesting_offsets(items, binary, max(4, cap // 2)) + [len(items)]
            for k in offs:
                if self.out_of_time():
                    stats.count('cases_with_enumeration_cut_by_deadline')
                    break
                if kind in ('duck_text', 'duck_binary'):
                    fault = {'op': 'read', 'at': k, 'errno': 'EIO'}
                else:
                    # raw offsets are byte offsets
                    kb = k if binary else len(items[:k].encode('utf-8'))
                    fault = {'op': 'read', 'at': kb, 'errno': 'EIO'}
                out = load_kind(kind, chunks=plan['chunks'][0], fault=fault)
                if out['io'].faults_fired:
                    stats.count('fired:read_error')
                    check(kind, out, plan['chunks'][0], boundary_class(items, k, binary),
                          strict=False, fault=('read_error', k))
                else:
                    stats.count('fault_not_delivered')
        for en in ('ENOENT', 'EACCES', 'EMFILE'):
            p = mount.put(docname, data)
            mount.open_faults[p] = en
            st_ = mount.iostats = simio.IoStats()
            out, _ = ops.call(lambda: fn(pathlib.Path(p)))
            del mount.open_faults[p]
            if st_.faults_fired:
                stats.count('fired:open_error')
                out['io'] = st_
                check('path', out, 'open:' + en, 'open', strict=False, fault=('open_error', en))
            else:
                stats.count('fault_not_delivered')
        if len(data) > 4096:
            stats.count('docs_over_4096_bytes')
        stats.sample({'mode': 'load', 'doc': plan['doc'][:200] + ('...' if len(doc) > 200 else ''),
                      'doc_bytes': len(data), 'root': plan['root'], 'knobs': knobs,
                      'chunk_schedules': schedules, 'str_outcome': self.brief(ref)})
        return violations

    def brief(self, out):
        mdir = self.mount.dir
        if out['status'] == 'ok':
            shown = str(out['value']).replace(mdir, '<MNT>')
            return ['ok', canon.short(shown), shown[:200]]
        return ['exc', out['exc'], out.get('text', '').replace(mdir, '<MNT>')[:200]]

    @staticmethod
    def diff_class(ref, out):
        if ref['status'] != out['status']:
            return '{}->{}'.format(ref['status'], out['status'])
        if ref['status'] == 'ok':
            return 'value' if ref['value'] != out['value'] else 'trace'
        if ref['exc'] != out['exc']:
            return 'exception-class'
        if ref['msg'] != out['msg']:
            return 'message'
        return 'trace'

    # dump side --------------------------------------------------------
    def exec_dump(self, plan, stats):
        ns = self.cache.get(plan['spec'])
        json_ = plan['fn'] == 'json'
        try:
            fs = ops.make_function(ns, 'dumps_json' if json_ else 'dumps', None, plan['order'])
            fd = ops.make_function(ns, 'dump_json' if json_ else 'dump', None, plan['order'])
            obj = U.build_value(ns, plan['value'])
        except Exception:
            stats.count('function_creation_failed')
            return []
        mount = self.mount
        knobs = mount.knobs
        stats.count('cases_dump')
        outname = self.file_name(plan, 'out.txt')
        stats.count('cases_naming_' + str(plan.get('naming')))
        stats.count('cases_dump_preexisting_' + str(plan['preexisting']))
        violations = []
        seen = set()
        options = [{}]
        if json_:
            options = [{'indent': i, 'ensure_ascii': a} for i in INDENTS for a in (True, False)]
        pre_kind = plan['preexisting']

        def pre_content(T):
            if pre_kind is None:
                return None
            if pre_kind == 'short':
                return b'x'
            if pre_kind == 'longer' or T is None:
                return b'PREEXISTING ' * 2000
            if pre_kind == 'extends':
                return (T + ('verbose: true\n' if not json_ else '0')).encode('utf-8')
            if pre_kind == 'prefix':
                return T[:len(T) // 2].encode('utf-8')
            if pre_kind == 'same':
                return T.encode('utf-8')
            return (T[:-2] + 'zz').encode('utf-8')   # samelen
        first = True
        ops.call(lambda: fs(obj))       # warm caches before measuring the cost
        rc = max(1, ops.call_cost(lambda: fs(obj)))
        if rc > self.max_calls:
            stats.count('cases_skipped_too_costly')
            return []
        nopt = max(2, min(len(options), self.call_budget // (rc * 30)))
        if nopt < len(options):
            stats.count('cases_with_cost_capped_enumeration')
            start = len(repr(plan['value'])) % len(options)
            step = len(options) / float(nopt)
            options = [options[(start + int(i * step)) % len(options)] for i in range(nopt)]
        fcap = max(3, min(self.cost // 8, self.call_budget // (rc * 60)))
        for opt in options:
            if self.out_of_time():
                stats.count('cases_with_enumeration_cut_by_deadline')
                break

            def dumps():
                return fs(obj, **opt)
            ref, _ = ops.call(dumps)
            T = ref['value'][1] if ref['status'] == 'ok' and ref['value'][0] == 'str' else None
            stats.count('dumps_' + ref['status'])

            def run(kind, chunks=None, fault=None, eintr=None, fail_at=None, open_errno=None):
                st_ = mount.iostats = simio.IoStats()
                rawplan = {'chunks': chunks, 'fault': fault, 'eintr': eintr}
                getter = None
                closer = None
                if kind in ('strpath', 'path'):
                    mount.remove(outname)
                    pre = pre_content(T)
                    if pre is not None:
                        mount.put(outname, pre)
                    p = mount.path(outname)
                    mount.plans[p] = rawplan
                    if open_errno:
                        mount.open_faults[p] = open_errno
                    sink = p if kind == 'strpath' else pathlib.Path(p)

                    def getter():
                        b, where = mount.content(outname)
                        return None if b is None else b.decode('utf-8', 'replace')
                elif kind == 'stringio':
                    sink = io.StringIO()
                    getter = sink.getvalue
                elif kind == 'duck':
                    sink = simio.DuckSink(st_, fail_at)
                    getter = sink.content
                elif kind == 'duck_flush':
                    sink = simio.DuckSinkFlush(st_, fail_at)
                    getter = sink.content
                elif kind == 'textio_sim':
                    sink, sf = simio.raw_sink(rawplan, st_, knobs)

                    def closer():
                        sink.close()

                    def getter():
                        return bytes(sf.data).decode('utf-8', 'replace')
                elif kind == 'textio_latin1':
                    # an open text stream with a legacy 8-bit encoding (a console, a file
                    # opened with a code page): same text as long as it is encodable
                    sink, sf = simio.raw_sink(rawplan, st_, knobs, encoding='latin-1')

                    def closer():
                        sink.close()

                    def getter():
                        return bytes(sf.data).decode('latin-1')
                elif kind == 'stringio_used':
                    # an open text stream the caller has already written to
                    sink = io.StringIO()
                    sink.write('# header written by the caller\n')
                    getter = sink.getvalue
                elif kind == 'stringio_twice':
                    # the same stream receives two dumps in a row
                    sink = io.StringIO()
                    fd(obj, sink, **opt)
                    getter = sink.getvalue
                elif kind == 'duck_console':
                    sink = simio.DuckSinkConsole(st_, fail_at)
                    getter = sink.content
                elif kind == 'realfile':
                    rp = os.path.join(mount.dir, '..', os.path.basename(mount.dir) + '.real.out')
                    sink = simio._real_open(rp, 'w', encoding='utf-8')

                    def closer():
                        sink.close()

                    def getter():
                        with simio._real_open(rp, 'r', encoding='utf-8', newline='') as f:
                            s = f.read()
                        os.unlink(rp)
                        return s
                else:
                    raise ValueError(kind)

                def thunk():
                    fd(obj, sink, **opt)
                    if closer:
                        closer()    # the caller closes its own stream; errors count as the dump's
                    return None
                out, _ = ops.call(thunk)
                mount.open_faults.clear()
                out['io'] = st_
                try:
                    out['content'] = getter()
                except Exception as e:   # e.g. closed file
                    out['content'] = '<unreadable: {}>'.format(type(e).__name__)
                return out

            def check(kind, out, what, strict=True, fault=None):
                stats.count('dumps_to_sink')
                stats.seen('nontrivial', canon.short(
                    [kind, 'json' if json_ else 'yaml', opt.get('indent'), opt.get('ensure_ascii'),
                     fault and fault[0]]))
                bad = None
                if strict:
                    if ref['status'] == 'ok':
                        if out['status'] != 'ok':
                            bad = ('dump-raised', 'dump raised {} although dumps returned'.format(out['exc']))
                        elif out['content'] != {'stringio_used': '# header written by the caller\n' + T,
                                                'stringio_twice': T + T}.get(kind, T):
                            bad = ('content', 'sink content differs from the text dumps returned')
                    else:
                        if out['status'] == 'ok':
                            bad = ('dump-returned', 'dump returned although dumps raised {}'.format(ref['exc']))
                        elif out['exc'] != ref['exc']:
                            bad = ('exception-class', 'dump raised {} where dumps raised {}'.format(
                                out['exc'], ref['exc']))
                else:
                    if out['status'] == 'ok' and ref['status'] == 'ok' and out['content'] != T:
                        bad = ('content-after-fault', 'dump met an I/O fault, returned normally, but the '
                               'sink does not hold the text')
                    elif out['status'] == 'ok' and ref['status'] != 'ok':
                        bad = ('dump-returned', 'dump returned although dumps raised {}'.format(ref['exc']))
                    if out['status'] == 'ok':
                        stats.count('faulted_dump_returned')
                    else:
                        stats.count('faulted_dump_raised')
                if bad:
                    key = (kind, strict, fault and fault[0])
                    if key not in seen:
                        seen.add(key)
                        violations.append(self.violation(
                            'dump to a sink differs from dumps',
                            {'side': 'dump', 'fn': plan['fn'], 'kind': kind,
                             'config': 'fault-free' if fault is None else
                             ('eintr' if strict else 'fault'),
                             'what': bad[0]},
                            {'explanation': bad[1], 'options': opt, 'schedule': what,
                             'dumps_text': T if T is None else T[:300],
                             'sink_content': None if out.get('content') is None else out['content'][:300],
                             'dump_outcome': self.brief(out), 'dumps_outcome': self.brief(ref),
                             'preexisting': plan['preexisting'], 'knobs': knobs,
                             'value': plan['value']}))

            # fault-free configuration
            kinds = ['strpath', 'path', 'stringio', 'duck', 'duck_flush', 'realfile', 'duck_console',
                     'stringio_used']
            if T is not None:
                kinds.append('stringio_twice')
            latin1_ok = False
            if T is not None:
                try:
                    T.encode('latin-1')
                    latin1_ok = True
                except UnicodeEncodeError:
                    pass
            if latin1_ok:
                kinds.append('textio_latin1')
            for kind in kinds:
                out = run(kind)
                check(kind, out, 'whole')
                if kind in ('strpath', 'path') and not out['io'].opened and out['status'] == 'ok':
                    stats.count('seam_not_reached_sink_open')
            for ch in [[1], [3]] + [list(c) for c in plan['chunks']]:
                for kind in ('path', 'textio_sim'):
                    out = run(kind, chunks=ch)
                    check(kind, out, ch)
                    stats.count('short_writes', out['io'].short_writes)
            for j in (0, 1):
                for kind in ('path', 'textio_sim'):
                    out = run(kind, chunks=[5], eintr=[j])
                    if out['io'].eintr_fired:
                        stats.count('fired:eintr_write')
                        check(kind, out, 'eintr@{}'.format(j), strict=True, fault=('eintr', j))
            # fault configuration (only for the first option set and a sample of
            # the others: the write path does not depend on the options)
            if first or (T is not None and len(T) < 40):
                n = len(T.encode('utf-8')) if T is not None else 8
                cap = fcap
                offs = sorted(set([0, 1, max(n - 1, 0), n] + list(range(0, n + 1, max(1, n // cap)))))
                for k in offs:
                    for en in ('ENOSPC', 'EIO'):
                        for kind in ('path', 'strpath', 'textio_sim'):
                            if en == 'EIO' and kind == 'strpath':
                                continue
                            out = run(kind, chunks=plan['chunks'][0],
                                      fault={'op': 'write', 'at': k, 'errno': en})
                            if out['io'].faults_fired:
                                stats.count('fired:write_error')
                                if out['io'].fault_during_close:
                                    stats.count('probe:write_fault_surfaced_in_close')
                                check(kind, out, ('write', k, en), strict=False,
                                      fault=('write_error', k))
                            else:
                                stats.count('fault_not_delivered')
                nw = 12
                for k in range(nw):
                    for kind in ('duck', 'duck_flush'):
                        out = run(kind, fail_at=k)
                        if out['io'].faults_fired:
                            stats.count('fired:duck_write_error')
                            check(kind, out, ('write_call', k), strict=False,
                                  fault=('duck_write_error', k))
                        else:
                            stats.count('fault_not_delivered')
                for en in ('ENOENT', 'EACCES', 'EMFILE'):
                    for kind in ('path', 'strpath'):
                        out = run(kind, open_errno=en)
                        if out['io'].faults_fired:
                            stats.count('fired:open_error')
                            check(kind, out, 'open:' + en, strict=False, fault=('open_error', en))
            first = False
            if opt.get('indent') in (None, 2) and opt.get('ensure_ascii', True):
                stats.sample({'mode': 'dump', 'fn': plan['fn'], 'options': opt,
                              'dumps_outcome': self.brief(ref), 'preexisting': plan['preexisting'],
                              'knobs': knobs}, cap=8)
        return violations

    # ------------------------------------------------------------ evidence
    def evidence(self, stats, tier):
        c = stats.counters
        fired = {k[6:]: v for k, v in c.items() if k.startswith('fired:')}
        probes = {k[6:]: v for k, v in c.items() if k.startswith('probe:')}
        cov = {
            'evaluations': c.get('evaluations', 0),
            'distinct_nontrivial': len(stats.distinct.get('nontrivial', ())),
            'rule': ('A case is a generated (class model, type, document) or (dumper, value) pair. Load side: '
                     'the document is loaded from str (reference), Path on the sim mount, StringIO, BytesIO, real '
                     'files, TextIOWrapper/BufferedReader over the simulated raw device and duck-typed read(n) '
                     'streams, under the chunk schedules [1], seeded lists, and a two-chunk split at every offset '
                     '(all offsets when affordable, otherwise every multi-byte interior, CR|LF boundary, block '
                     'boundary and an even spread). Dump side: every indent in {None,0,1,2,4,8} x ensure_ascii '
                     'for JSON, to str path, Path (fresh / pre-existing content), StringIO, duck sinks with and '
                     'without flush, real file, TextIOWrapper over the simulated device with short raw writes. '
                     'Fault configuration (separate, relaxed oracle): one read/write/open error or EINTR per run at '
                     'enumerated offsets. distinct_nontrivial counts distinct (kind, boundary class or option set, '
                     'fault class) combinations actually executed.'),
            'samples': stats.samples[:8],
            'cases_load': c.get('cases_load', 0), 'cases_dump': c.get('cases_dump', 0),
            'simulated_loads': c.get('loads', 0), 'simulated_dumps_to_sinks': c.get('dumps_to_sink', 0),
            'short_reads_delivered': c.get('short_reads', 0),
            'short_writes_delivered': c.get('short_writes', 0),
            'faults_fired_by_kind': fired,
            'faults_planned_but_not_delivered': c.get('fault_not_delivered', 0),
            'seam_not_reached': c.get('seam_not_reached_path_open', 0) + c.get('seam_not_reached_sink_open', 0),
            'faulted_outcomes': {k: c.get(k, 0) for k in (
                'faulted_load_returned', 'faulted_load_raised', 'faulted_dump_returned', 'faulted_dump_raised')},
            'reference_outcomes': {k: c.get(k, 0) for k in ('ref_ok', 'ref_exc', 'dumps_ok', 'dumps_exc')},
            'documents_over_4096_bytes': c.get('docs_over_4096_bytes', 0),
            'cases_with_cost_capped_enumeration': c.get('cases_with_cost_capped_enumeration', 0),
            'cases_skipped_too_costly': c.get('cases_skipped_too_costly', 0),
            'cases_with_enumeration_cut_by_deadline': c.get('cases_with_enumeration_cut_by_deadline', 0),
            'probes': probes,
            'simulated_time': 'not applicable: yatiml reads no clock; logical steps are raw I/O calls',
            'real_vs_stub': dict(REAL_STUB, **{
                'raw file device and file namespace under the sim mount': 'stub (SimRawIO, patched io.open/builtins.open)',
                'caller-supplied streams': 'stub (duck read(n)/write(s) objects) and real (StringIO, BytesIO, real files)'}),
            'exhaustive': False,
        }
        return {'coverage': cov, 'assumptions': [
            'Encoding of the sim mount and of text streams is UTF-8 (checks refuse to run in another locale); '
            'Windows newline translation and other locales are configurations C12 does not quantify over.',
            'Text sinks never return short counts (outside the TextIOBase contract).',
            'After an injected I/O error the oracle is deliberately relaxed: the call may raise anything, but '
            'if it returns, a load returns the str value and a dump leaves exactly the dumps text in the sink.',
            'Same error = same exception class, same (line, column) list and the same multiset of message '
            'tokens; source names, the two-line snippet only str sources carry and ReaderError byte positions '
            'are not compared.',
        ]}
