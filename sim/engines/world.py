"""C11: load and dump functions are stateless, isolated, and leave PyYAML untouched.

exploration: a plan is a small world - class-model specs, shared load/dump
functions, K client threads with operation lists, a schedule tape and faults.
It is executed in a child forked from the pristine worker image, under the baton
scheduler (sim.sched).  The recorded history is then compared, operation by
operation, with the outcome of the same operation in a fresh pristine child in
which only the function it needs was created ("the same call in a fresh
process").  In-run oracles watch PyYAML's registries, the user's classes and the
shared value objects.
"""
import builtins
import collections
import gc
import io
import os
import pathlib
import shutil
import sys
import tempfile
import threading
import types
import warnings

from sim import canon, isolate, ops, seam, simio
from sim import universe as U
from sim.engines import REAL_STUB, Engine

DUMP_KINDS = ('dumps', 'dump', 'dumps_json', 'dump_json')

PROBE_DOCS = [
    'yes', 'on', 'off', 'No', 'y', 'n', '1e5', '1_000.5', '1:30.5', '0o17', '017', '0x1F',
    '.inf', '1.', '.5', 'null', '~', '2001-02-03', 'a: yes\nb: [1e3, .5, 1_0, 1:30]\n',
    '!!python/tuple [1]', '!A {x: 1}', '!Path a/b', '{a: 1, a: 2}', '!!omap [a: 1]',
    '&x [1, *x]', 'true', 'TRUE', '6.02e+23', '1e3', '+.INF', '0b101',
]


def _probe_values():
    import datetime
    return [
        {'a': True, 'b': 1.5, 'c': None, 'd': 'yes'},
        'yes', 'on', '1e5', 'null', '',
        1e5, float('inf'), 1e16, 0.5,
        [1, [2, {'k': 'v'}]],
        datetime.date(2001, 2, 3),
        collections.OrderedDict([('z', 1), ('a', 2)]),
        pathlib.PurePosixPath('a/b'),
        pathlib.Path('a/b'),
        (1, 2),
        {1: 'int key', 'two': 2},
        'multi\nline', 'tréma', b'bytes',
        {'nested': {'t': False, 'n': None}},
    ]


N_PROBES = len(PROBE_DOCS) + len(_probe_values()) + 4


def run_probe(which):
    """Behaviour of plain PyYAML, as a user of yaml.safe_load/safe_dump sees it."""
    import yaml
    which = which % N_PROBES
    if which < len(PROBE_DOCS):
        return yaml.safe_load(PROBE_DOCS[which])
    which -= len(PROBE_DOCS)
    vals = _probe_values()
    if which < len(vals):
        return yaml.safe_dump(vals[which])
    which -= len(vals)
    if which == 0:
        return yaml.load('a: yes\nb: 1e5\nc: 1_0.5\n', Loader=yaml.SafeLoader)
    if which == 1:
        return yaml.dump({'p': [1, 'yes', 1e5]})
    if which == 2:
        return yaml.full_load('a: on\nb: !!python/tuple [1, 2]\nc: 1:30\n')
    return [list(yaml.safe_load_all('a: yes\n---\nb: off\n')),
            yaml.safe_dump_all([{'a': 'yes'}, [1.0]])]


BROAD_DOC = """\
- [yes, No, on, OFF, y, n, true, False, TRUE, ~, null, Null, '', "quoted", 'true', "1"]
- [1, -1, +1, 0, 017, 0o17, 0x1F, 0b101, 1_000, 190:20:30, 685_230, 1e5, 1E3, 1.5, .5, 1., -.5, 6.02e+23,
   1_000.5, 1:30.5, .inf, -.INF, +.Inf, .nan, .NaN, 1e, e5, 1.2.3, 0x, 0b2, 08, 1__0]
- [2001-02-03, 2001-12-14t21:59:43.10-05:00, 2001-12-14 21:59:43.10 -5, 2001-12-15 2:59:43.10,
   2001-12-14T21:59:43Z, 2001-2-3, '2001-02-03', 20010203]
- {a: 1, b: {c: [1, 2, {d: e}]}, 1: int key, 1.5: float key, true: bool key, ~: null key}
- !!set {a, b, c}
- !!omap [a: 1, b: 2]
- !!pairs [a: 1, a: 2]
- !!binary "aGVsbG8="
- !!str 123
- !!int "42"
- !!float "1"
- !!bool "yes"
- !!null ""
- !!timestamp "2001-02-03"
- !!seq [1]
- !!map {k: v}
- &anchor {x: 1, y: [1, 2]}
- *anchor
- {<<: *anchor, z: 3}
- {<<: [*anchor, {w: 0}], x: 2}
- "multi
  line"
- |
  literal
   text
- >-
  folded
  text
- "esc \\x41 \\u00e9 \\U0001F600 \\t \\0 \\N \\_ \\L \\P \\e"
- 'it''s'
- [a: b, c]
- - - nested
--- second document
--- !!str
...
---
k: v
"""

BROAD_ERRORS = ['!A {x: 1}', '!!python/tuple [1]', '!!python/object:os.system []', '{a: 1, a: 2}',
                '&x [1, *x]', '{[1]: 2}', '*unknown', 'a: b: c', '[1, 2', '\x01', '!!int abc',
                '!!timestamp nope', '!!binary "@@@"', '!!omap {a: 1}', '!!set [a]', '- !!bool maybe',
                '%YAML 2.0\n--- a', '!Path a/b', '!!python/name:os.system x', 'a: &b c\n*b : d\n? *b\n']


def _broad_values():
    import datetime
    import decimal
    tz = datetime.timezone(datetime.timedelta(hours=-5))
    return [
        True, False, None, 0, -1, 10 ** 30, 0.0, -0.0, 1.5, 1e5, 1e16, 1e-7, float('inf'), float('-inf'),
        float('nan'), '', 'yes', 'No', 'on', 'null', '~', '1', '1.5', '1e5', '1_000', '0x1F', '017', '1:30',
        '2001-02-03', 'tr\u00e9ma', '\U0001f600', 'multi\nline', ' lead', 'trail ', 'a: b', '- a', '#c', '"q"', "'q'",
        '\ttab', '\x85nel', '\u2028ls', 'x' * 200, 'word ' * 40, b'bytes', b'\xff\x00', (1, 2), [], {}, [[]], [{}],
        {'a': [], 'b': {}}, {1: 'i', 1.5: 'f', None: 'n', True: 'b', (1, 2): 't', 'two': 2},
        {'b': 1, 'a': 2, 'c': [3, {'z': 0, 'y': None}]}, {'a', 'b'}, frozenset(),
        datetime.date(2001, 2, 3), datetime.datetime(2001, 12, 14, 21, 59, 43, 100000),
        datetime.datetime(2001, 12, 14, 21, 59, 43, tzinfo=tz), datetime.datetime(2001, 12, 14, 21, 59, 43,
                                                                             tzinfo=datetime.timezone.utc),
        collections.OrderedDict([('z', 1), ('a', 2)]), pathlib.PurePosixPath('a/b'), pathlib.Path('a/b'),
        collections.UserString('us'), collections.defaultdict(int), decimal.Decimal('1.5'), range(3), 1j,
        datetime.time(1, 2), datetime.timedelta(1), object,
    ]


def broad_probe():
    """Digest of what plain PyYAML does for a broad set of documents and values:
    every scalar spelling family, the standard tags, merge keys, anchors, block and
    flow styles, several documents in one stream, the usual errors; every built-in
    type the standard dumpers know and a few they reject; the option combinations of
    yaml.safe_dump; the other standard loaders and dumpers."""
    import yaml
    out = []

    def attempt(f):
        try:
            return ['ok', canon.canon(f())]
        except BaseException as e:      # noqa
            if isinstance(e, (KeyboardInterrupt, SystemExit, seam.SimCancel)):
                raise
            return ['exc'] + list(canon.canon_exc(e))

    out.append(attempt(lambda: list(yaml.safe_load_all(BROAD_DOC))))
    out.append(attempt(lambda: list(yaml.load_all(BROAD_DOC, Loader=yaml.FullLoader))))
    out.append(attempt(lambda: [[type(n).__name__, n.tag] for n in yaml.compose_all(BROAD_DOC)]))
    for d in BROAD_ERRORS:
        out.append(attempt(lambda: yaml.safe_load(d)))
    out.append(attempt(lambda: yaml.unsafe_load('[!!python/tuple [1, 2], !!python/complex 1+2j, '
                                                '!!python/name:os.sep , !!python/str x]')))
    for v in _broad_values():
        out.append(attempt(lambda: yaml.safe_dump(v)))
    big = [True, None, 1, 1.5, 1e5, 'yes', '1', 'tr\u00e9ma', 'multi\nline', {'b': [1, {'a': None}], 'a': {}},
           'word ' * 12]
    for kw in ({'default_flow_style': True}, {'default_flow_style': False, 'indent': 4, 'width': 20},
               {'allow_unicode': True, 'explicit_start': True, 'explicit_end': True},
               {'canonical': True}, {'default_style': '"', 'sort_keys': False, 'line_break': '\r\n'},
               {'version': (1, 1), 'tags': {'!e!': 'tag:example.com,2000:'}, 'encoding': 'utf-16'}):
        out.append(attempt(lambda: yaml.safe_dump(big, **kw)))
    out.append(attempt(lambda: yaml.dump(_broad_values()[-14:-1])))
    out.append(attempt(lambda: yaml.safe_dump_all([1, 'a', None, {'k': [1.5]}])))
    out.append(attempt(lambda: yaml.dump(big, Dumper=yaml.BaseDumper) if False else yaml.serialize(
        yaml.compose('a: [1, 2.5, yes]'))))
    out.append(attempt(lambda: [type(e).__name__ for e in yaml.parse('a: [1, &x b, *x]')]))
    out.append(attempt(lambda: [type(t).__name__ for t in yaml.scan('a: [1, "q"]')]))
    out.append(attempt(lambda: yaml.emit(yaml.parse('{a: [1, 2], b: !!str x}'))))
    return [canon.short(x) for x in out]


# ------------------------------------------------------------ fingerprints

_REGS = ('yaml_constructors', 'yaml_multi_constructors', 'yaml_representers',
         'yaml_multi_representers', 'yaml_implicit_resolvers', 'yaml_path_resolvers')


def _watched_classes():
    import yaml
    import yatiml.dumper
    import yatiml.loader
    return [('yaml.BaseLoader', yaml.BaseLoader), ('yaml.SafeLoader', yaml.SafeLoader),
            ('yaml.FullLoader', yaml.FullLoader), ('yaml.Loader', yaml.Loader),
            ('yaml.UnsafeLoader', yaml.UnsafeLoader),
            ('yaml.BaseDumper', yaml.BaseDumper), ('yaml.SafeDumper', yaml.SafeDumper),
            ('yaml.Dumper', yaml.Dumper),
            ('yatiml.loader.Loader', yatiml.loader.Loader),
            ('yatiml.dumper.Dumper', yatiml.dumper.Dumper)]


def _callable_name(v):
    n = getattr(v, '__qualname__', None)
    if n is None:
        n = type(v).__qualname__
    return '{}.{}'.format(getattr(v, '__module__', None) or type(v).__module__, n)


def _key_name(k):
    if isinstance(k, type):
        return 'type:' + k.__module__ + '.' + k.__qualname__
    return repr(k)


def _plain(v, depth=0):
    """JSON-able image of plain data (sets sorted, everything else by repr)."""
    if depth > 6:
        return '...'
    if isinstance(v, dict):
        return sorted([[repr(k), _plain(x, depth + 1)] for k, x in v.items()], key=lambda p: p[0])
    if isinstance(v, (list, tuple)):
        return [_plain(x, depth + 1) for x in v]
    if isinstance(v, (set, frozenset)):
        return sorted(repr(x) for x in v)
    if hasattr(v, 'pattern') and hasattr(v, 'flags'):
        return 're:' + str(v.pattern)
    if isinstance(v, (str, int, float, bool, type(None))):
        return repr(v)
    return _callable_name(v)


def deep_fingerprint():
    """Structural fingerprint of everything a user of plain PyYAML relies on."""
    import yaml
    import yatiml.loader
    fp = {}
    for cname, cls in _watched_classes():
        for reg in _REGS:
            d = getattr(cls, reg, None)
            if d is None:
                continue
            items = []
            for k, v in d.items():
                if reg == 'yaml_implicit_resolvers':
                    items.append([_key_name(k), [[t, r.pattern] for t, r in v]])
                elif reg == 'yaml_path_resolvers':
                    items.append([_key_name(k), repr(v)])
                else:
                    items.append([_key_name(k), _callable_name(v)])
            items.sort(key=lambda x: x[0])
            fp['{}.{}'.format(cname, reg)] = canon.short(items)
        own = sorted(k for k in vars(cls) if not k.startswith('__'))
        fp[cname + '.__dict__'] = canon.short(own)
        # every method the class resolves to, by defining class and source position
        # (a monkey-patched PyYAML method changes what yaml.safe_load does)
        meths = []
        for k in cls.__mro__:
            if k is object:
                continue
            for name, v in vars(k).items():
                f = getattr(v, '__func__', v)
                code = getattr(f, '__code__', None)
                if code is not None:
                    meths.append([k.__module__, k.__qualname__, name,
                                  os.path.basename(code.co_filename), code.co_firstlineno])
        meths.sort()
        fp[cname + '.methods'] = canon.short(meths)
        # plain-data class attributes anywhere in the MRO (bool_values, inf_value,
        # timestamp_regexp, DEFAULT_TAGS, ...): content, not identity
        data = []
        for k in cls.__mro__:
            if k is object:
                continue
            for name, v in vars(k).items():
                if name in _REGS or name.startswith('__'):
                    continue
                if isinstance(v, (dict, list, set, frozenset, tuple, str, int, float, bool, type(None))):
                    data.append([k.__qualname__, name, canon.short(_plain(v))])
                elif hasattr(v, 'pattern') and hasattr(v, 'flags'):
                    data.append([k.__qualname__, name, 're:' + str(v.pattern) + '/' + str(v.flags)])
        data.sort()
        fp[cname + '.data'] = canon.short(data)
    L = yatiml.loader.Loader
    fp['Loader.statics'] = canon.short([repr(L._registered_classes), repr(L._additional_classes),
                                        repr(L.document_type)])
    mod = []
    for name in ('load', 'load_all', 'safe_load', 'safe_load_all', 'dump', 'dump_all', 'safe_dump',
                 'safe_dump_all', 'full_load', 'add_constructor', 'add_representer',
                 'add_implicit_resolver', 'compose', 'parse', 'scan', 'emit', 'serialize'):
        f = getattr(yaml, name, None)
        mod.append([name, _callable_name(f), getattr(getattr(f, '__code__', None), 'co_firstlineno', None)])
    fp['yaml.module'] = canon.short(mod)
    # every class the yaml package defines (nodes, events, tokens, marks, errors, the
    # pipeline stages): attribute names, and methods by source position
    for mname in sorted(m for m in sys.modules if m == 'yaml' or m.startswith('yaml.')):
        m = sys.modules.get(mname)
        if m is None:
            continue
        items = []
        for cname, cls in sorted(vars(m).items()):
            if not isinstance(cls, type) or getattr(cls, '__module__', None) != mname:
                continue
            for name, v in vars(cls).items():
                if name in _REGS:
                    continue
                f = getattr(v, '__func__', v)
                code = getattr(f, '__code__', None)
                if code is None and name.startswith('__'):
                    continue    # (__doc__, __dict__, copyreg's __slotnames__ cache, ...)
                items.append([cname, name, None if code is None else
                              [os.path.basename(code.co_filename), code.co_firstlineno]])
            items.append([cname, '<bases>', [b.__qualname__ for b in cls.__bases__]])
        items.sort(key=repr)
        fp['classes of ' + mname] = canon.short(items)
    # what plain PyYAML DOES (not only how it is set up)
    for i, d in enumerate(broad_probe()):
        fp['plain PyYAML behaviour probe #{}'.format(i)] = d
    fp['yaml modules'] = canon.short(sorted(
        [mname, sorted(k for k in vars(sys.modules[mname]) if not k.startswith('__'))]
        for mname in sys.modules if (mname == 'yaml' or mname.startswith('yaml.')) and sys.modules[mname] is not None))
    return fp


CHILD_RECURSION_LIMIT = 1200


def process_globals():
    """Process-wide settings that change what later yaml / yatiml calls do."""
    import locale
    mask = os.umask(0o022)
    os.umask(mask)
    import warnings
    # (only settings that change what a later load or dump RETURNS or WRITES belong here:
    # logging configuration, gc settings, sys.path and the like are not promised by C11)
    extra = [_callable_name(io.open), _callable_name(builtins.open),
             repr(sys.get_int_max_str_digits()), repr(warnings.defaultaction)]
    return extra + [sys.getrecursionlimit(), repr(sys.getswitchinterval()), os.getcwd(), mask,
            repr(locale.getlocale()), sys.getdefaultencoding(), sys.getfilesystemencoding(),
            # the warning filters decide whether a user class that warns raises instead
            repr([(f[0], getattr(f[2], '__name__', f[2]), f[4]) for f in warnings.filters])]


_ABCS = None


def abc_membership(cls):
    """Which of the common ABCs the class counts as a (virtual) subclass of."""
    global _ABCS
    if _ABCS is None:
        import collections.abc as cabc
        _ABCS = [cabc.Mapping, cabc.MutableMapping, cabc.Sequence, cabc.MutableSequence, cabc.Set,
                 cabc.Hashable, cabc.Iterable, cabc.Callable, cabc.Sized, cabc.Container]
    out = []
    for a in _ABCS:
        try:
            out.append(issubclass(cls, a))
        except TypeError:
            out.append(None)
    return out


def cheap_fingerprint_fn():
    """Returns a zero-argument function computing a constant-time fingerprint.

    (ids and sizes of the registries; sizes of every implicit-resolver bucket)
    """
    watched = [cls for _, cls in _watched_classes()]

    def fp():
        out = []
        for cls in watched:
            for reg in _REGS:
                d = getattr(cls, reg, None)
                if d is None:
                    out.append(0)
                    continue
                out.append(id(d))
                out.append(len(d))
                if reg == 'yaml_implicit_resolvers':
                    n = 0
                    for v in d.values():
                        n += len(v)
                    out.append(n)
            out.append(len(vars(cls)))
        return out
    return fp


def shared_state_fn(env):
    """Returns (fast, slow): fingerprints of the state that outlives one call.

    Used only to *guide* schedules (never as an oracle): a change between two
    consecutive yield points marks a write to call-outliving state, which is
    where a pre-emption can make another call observe in-flight state.
    fast: the function objects, their Loader/Dumper classes, the registered
    constructor/representer instances, module-level containers and scalars of
    the yatiml modules.  slow (sampled): PyYAML's and yatiml's base classes,
    the user's classes.
    """
    mods = [m for n, m in sorted(sys.modules.items())
            if (n == 'yatiml' or n.startswith('yatiml.')) and m is not None]
    watched_globals = []
    for m in mods:
        d = vars(m)
        for name, v in d.items():
            if name.startswith('__'):
                continue
            if isinstance(v, (dict, list, set, collections.deque)):
                watched_globals.append((d, name, True))
            elif v is None or isinstance(v, (bool, int, float, str, tuple)):
                watched_globals.append((d, name, False))
    mod_dicts = [vars(m) for m in mods]
    # class-level state of yatiml's own classes, and containers hidden in function
    # defaults or closures (mutable default arguments used as scratch space)
    hidden = []
    seen_fn = set()

    def scan_function(f):
        f = getattr(f, '__func__', f)
        if not isinstance(f, types.FunctionType) or id(f) in seen_fn:
            return
        seen_fn.add(id(f))
        cells = list(f.__defaults__ or ()) + list((f.__kwdefaults__ or {}).values())
        for c in f.__closure__ or ():
            try:
                cells.append(c.cell_contents)
            except ValueError:
                pass
        for v in cells:
            if isinstance(v, (dict, list, set, collections.deque)):
                hidden.append(v)

    for m in mods:
        for name, v in list(vars(m).items()):
            if isinstance(v, type) and getattr(v, '__module__', '').startswith('yatiml'):
                d = vars(v)
                for k, x in list(d.items()):
                    if k.startswith('__') and k != '__init__' and k != '__call__':
                        continue
                    if isinstance(x, (dict, list, set, collections.deque)):
                        watched_globals.append((d, k, True))
                    elif x is None or isinstance(x, (bool, int, float, str, tuple)):
                        watched_globals.append((d, k, False))
                    else:
                        scan_function(x)
            else:
                scan_function(v)
    cheap = cheap_fingerprint_fn()
    user = []
    for ns in env.ns.values():
        user.extend(ns.classes.values())
    fns = env.fns
    cache = {'n': -1, 'objs': []}

    def refresh():
        objs = []
        for slot, (fn, _) in list(fns.items()):
            objs.append(vars(fn))
            cls = getattr(fn, 'loader', None) or getattr(fn, 'dumper', None)
            if cls is None:
                continue
            objs.append(vars(cls))
            for reg in ('yaml_constructors', 'yaml_representers'):
                d = getattr(cls, reg, None)
                if not d:
                    continue
                objs.append(d)
                for v in d.values():
                    if isinstance(v, (types.FunctionType, types.MethodType, type)):
                        continue
                    dd = getattr(v, '__dict__', None)
                    if dd is not None:
                        objs.append(dd)
        cache['objs'] = objs
        cache['n'] = len(fns)

    def fast():
        # (values are compared with ==, which short-cuts on identity; holding
        # them until the next yield point is harmless in a profiling run)
        if cache['n'] != len(fns):
            refresh()
        out = []
        for d in cache['objs']:
            vals = list(d.values())
            for i, v in enumerate(vals):
                # a container an object holds on to (a dict of options, say) is
                # compared by content: its identity never changes
                if type(v) is dict:
                    vals[i] = list(v.items())
                elif type(v) is list or type(v) is set:
                    vals[i] = list(v)
            out.append(vals)
        out.append([len(d[name]) if cont else d[name] for d, name, cont in watched_globals
                    if name in d])
        out.append([len(d) for d in mod_dicts])
        out.append(sys.getrecursionlimit())
        out.append(simio.FS_EPOCH[0])
        out.append((id(warnings.filters), len(warnings.filters)))
        out.append([list(h.values()) if isinstance(h, dict) else (list(h) if isinstance(h, list) else len(h))
                    for h in hidden])
        return out

    def slow():
        out = cheap()
        for c in user:
            d = vars(c)
            out.append(len(d))
            out.extend(map(id, d.values()))
        return out
    return fast, slow


def class_snapshot(cls):
    """Identity of every class attribute, the content of plain-data ones (a dict or
    list the user put on the class may be mutated in place), the bases, and the ABCs
    the class is registered with."""
    out = [('<bases>', 0, repr([b.__qualname__ for b in cls.__bases__])),
           ('<abcs>', 0, repr(abc_membership(cls)))]
    for k, v in vars(cls).items():
        if isinstance(v, (dict, list, set, tuple, str, int, float, bool, type(None))):
            out.append((k, id(v), canon.short(canon.canon(v))))
        else:
            f = getattr(v, '__func__', v)
            if isinstance(f, types.FunctionType):
                # what introspection (and yatiml itself) reads from a method: annotations,
                # defaults, attributes set on the function, the code object
                out.append((k, id(v), canon.short([
                    repr(sorted((a, repr(b)) for a, b in (f.__annotations__ or {}).items())),
                    repr(f.__defaults__), repr(f.__kwdefaults__), repr(sorted(vars(f))),
                    id(f.__code__), repr(f.__doc__), f.__name__, f.__qualname__])))
            else:
                out.append((k, id(v), None))
    out.sort(key=lambda x: x[0])
    return out


# ------------------------------------------------------------ environment

class Env:
    """Everything an operation can refer to inside one process."""

    def __init__(self, specs, mount):
        self.ns = collections.OrderedDict()
        for s in specs:
            parent = self.ns.get(s.get('import_from')) if s.get('imported') else None
            self.ns[s['uid']] = U.Namespace(s, parent)
        self.specs = {s['uid']: s for s in specs}
        self.nested_done = []   # (op, outcome) of nested calls made during the current operation
        self.kept = None        # list: the caller keeps (a bounded number of) what it loaded
        self.fns = {}
        self.shared = {}
        self.mount = mount
        self.retained = None    # list: exceptions of failed operations are kept alive
        mdir = mount.dir if mount is not None else None
        self.norm = (lambda m: m.replace(mdir, '<MNT>')) if mdir else None

    def use_loaded(self, v):
        ops.use_result(v)
        if self.kept is not None and len(self.kept) < 64:
            self.kept.append(v)

    def build(self, spec_uid, val):
        return U.build_value(self.ns[spec_uid], val)


def _source(env, op, iost):
    kind = op.get('source', 'str')
    doc = op['doc']
    if kind == 'str':
        return doc, None
    if kind == 'stringio':
        return io.StringIO(doc), None
    data = doc.encode('utf-8', 'surrogatepass')
    if kind == 'bytesio':
        return io.BytesIO(data), None
    if kind == 'path':
        p = env.mount.put(op.get('file', 'f.src'), data)
        env.mount.plans[p] = {'chunks': op.get('chunks'),
                              'fault': ({'op': 'read', 'at': op['iof']['at'], 'errno': 'EIO'}
                                        if op.get('iof') else None)}
        return pathlib.Path(p), None
    if kind == 'duck_text':
        return simio.DuckSource(doc, op.get('chunks'), iost,
                                op['iof']['at'] if op.get('iof') else None), None
    if kind == 'duck_binary':
        return simio.DuckSource(data, op.get('chunks'), iost,
                                op['iof']['at'] if op.get('iof') else None), None
    raise ValueError(kind)


def _sink(env, op, iost):
    kind = op.get('sink', 'stringio')
    fail_at = op['iof']['at'] if op.get('iof') else None
    if kind == 'stringio':
        s = io.StringIO()
        return s, s.getvalue
    if kind in ('duck', 'duck_flush'):
        s = (simio.DuckSink if kind == 'duck' else simio.DuckSinkFlush)(iost, fail_at)
        return s, s.content
    if kind in ('path', 'strpath'):
        name = op.get('file', 'f.out')
        env.mount.remove(name)
        if op.get('pre'):
            env.mount.put(name, b'PREEXISTING CONTENT ' * 40)
        p = env.mount.path(name)
        env.mount.plans[p] = {'chunks': op.get('chunks'),
                              'fault': ({'op': 'write', 'at': fail_at, 'errno': 'ENOSPC'}
                                        if fail_at is not None else None)}

        def getter():
            b, _ = env.mount.content(name)
            return None if b is None else b.decode('utf-8', 'replace')
        return (p if kind == 'strpath' else pathlib.Path(p)), getter
    raise ValueError(kind)


def exec_op(env, op, th=None):
    """Executes one operation; returns the outcome dict (always has 'status')."""
    kind = op['op']
    iost = simio.IoStats()
    faults = None
    if op.get('cbf'):
        faults = {int(k): v for k, v in op['cbf'].items()}
    getter = None
    if kind == 'gc':
        gc.collect()
        return {'status': 'ok', 'value': ['none'], 'trace': []}
    if kind == 'drop':
        # the caller lets go of a function (its Loader/Dumper class becomes garbage)
        env.fns.pop(op['slot'], None)
        return {'status': 'ok', 'value': ['none'], 'trace': []}
    if kind == 'rebuild':
        # the application defines its classes anew (a request handler with local classes,
        # a module reloaded): new class objects, new typing aliases; the old ones die
        sp = env.specs[op['spec']]
        parent = env.ns.get(sp.get('import_from')) if sp.get('imported') else None
        env.ns[op['spec']] = U.Namespace(sp, parent)
        return {'status': 'ok', 'value': ['none'], 'trace': []}
    if kind == 'mk':
        ns = env.ns[op['spec']]

        def thunk():
            fn = ops.make_function(ns, op['kind'], op.get('root'), op.get('order'), op.get('only'))
            env.fns[op['slot']] = (fn, op)
            return None
    elif kind == 'yaml_probe':
        def thunk():
            return run_probe(op['which'])
    elif kind == 'load':
        ent = env.fns.get(op['slot'])
        if ent is None or ent[1]['kind'] != 'load':
            return {'status': 'skipped'}
        fn = ent[0]
        src, _ = _source(env, op, iost)

        def thunk():
            return fn(src)
    elif kind in DUMP_KINDS:
        ent = env.fns.get(op['slot'])
        if ent is None or ent[1]['kind'] != kind:
            return {'status': 'skipped'}
        fn = ent[0]
        if 'shared' in op:
            if op['shared'] not in env.shared:
                return {'status': 'skipped'}
            obj = env.shared[op['shared']]
        else:
            try:
                obj = env.build(op['val_spec'], op['val'])
            except Exception:
                return {'status': 'skipped'}
        kw = {}
        if kind in ('dumps_json', 'dump_json'):
            kw = {'indent': op.get('indent'), 'ensure_ascii': op.get('ensure_ascii', True)}
        if kind in ('dumps', 'dumps_json'):
            def thunk():
                return fn(obj, **kw)
        else:
            sink, getter = _sink(env, op, iost)

            def thunk():
                fn(obj, sink, **kw)
                return None
    else:
        raise ValueError(kind)

    nested = None
    if op.get('nest'):
        # re-entrant use: at the given callback invocations the user's code calls another
        # load or dump function; each nested call is an operation of its own in the history
        def runner(nop):
            def run():
                # (the nested operation's value is built by the harness, outside any call:
                # the outer operation's callback context must not see that)
                outer = seam.current()
                seam.install(None)
                try:
                    nout = exec_op(env, nop, None)
                finally:
                    seam.install(outer)
                env.nested_done.append((nop, nout, th.id if th is not None else -1))
            return run
        nested = {int(k): runner(v) for k, v in op['nest'].items()}
    if th is not None:
        th.begin_op(op.get('cancel'))
    try:
        # (a loaded value belongs to the caller, who changes it in place once it is recorded)
        out, ctx = ops.call(thunk, faults, env.norm, env.retained, graph=(kind == 'load'), nested=nested,
                            after=env.use_loaded if kind == 'load' else None)
    except seam.SimCancel:
        out = {'status': 'cancelled', 'trace': []}
        ctx = None
    if th is not None:
        out['yields'] = th.op_yields
        out['cancel_fired'] = th.cancel_fired
        th.cancel_at = None
    if getter is not None:
        try:
            out['sink'] = getter()
        except Exception as e:
            out['sink'] = '<unreadable {}>'.format(type(e).__name__)
    out['cb_fired'] = len(ctx.fired) if ctx is not None else 0
    out['io_fired'] = len(iost.faults_fired)
    return out


def comparable(out):
    if out['status'] in ('skipped', 'cancelled'):
        return [out['status']]
    return ops.comparable(out) + [out.get('sink')]


def diff_class(want, got):
    if want[0] != got[0]:
        return '{}->{}'.format(want[0], got[0])
    if want[0] == 'ok':
        if want[1] != got[1]:
            return 'value'
        if want[2] != got[2]:
            return 'callback-trace'
        return 'sink-content'
    if want[0] == 'exc':
        if want[1] != got[1]:
            return 'exception-class'
        if want[2] != got[2]:
            return 'message'
        if want[3] != got[3]:
            return 'callback-trace'
        return 'sink-content'
    return 'other'


# ------------------------------------------------------------ the simulated run

def run_plan(plan, pristine_fp, yatiml_dir, yaml_dir, profile=False):
    """Executed in a forked child of the pristine worker.  Returns a JSON dict."""
    from sim import sched
    gc.disable()
    gc.freeze()     # explicit gc operations of a plan look only at what the plan created
    # (Hypothesis raises the limit while it runs a test; a replay has no Hypothesis)
    sys.setrecursionlimit(CHILD_RECURSION_LIMIT)
    mount = simio.Mount()
    try:
        with mount:
            return _run_plan(plan, pristine_fp, yatiml_dir, yaml_dir, mount, sched, profile)
    finally:
        mount.destroy()


def _run_plan(plan, pristine_fp, yatiml_dir, yaml_dir, mount, sched, profile=False):
    env = Env(plan['specs'], mount)
    if (plan.get('knobs') or {}).get('retain_exc'):
        env.retained = []
    if (plan.get('knobs') or {}).get('keep_results'):
        env.kept = []
    violations = []
    history = []
    cheap = cheap_fingerprint_fn()
    cheap0 = cheap()
    proc0 = process_globals()
    snaps = {}
    for uid, ns in env.ns.items():
        for name, cls in list(ns.classes.items()) + [('Alien', ns.alien)]:
            snaps[(uid, name)] = (cls, class_snapshot(cls))

    # ---- setup, on the main thread, before any client exists
    for i, op in enumerate(plan['setup']):
        if op['op'] == 'mkval':
            try:
                env.shared[op['vslot']] = env.build(op['spec'], op['val'])
            except Exception:
                pass
            continue
        out = exec_op(env, op, None)
        history.append({'t': -1, 'i': i, 'op': op, 'out': out, 'inv': 0, 'ret': 0})
    shared0 = {k: canon.canon_graph(v) for k, v in env.shared.items()}

    threads = plan['threads']
    knobs = plan.get('knobs') or {}
    any_cancel = any(op.get('cancel') for ops_ in threads for op in ops_)
    traced = len(threads) > 1 or any_cancel or bool(knobs.get('trace_single'))
    writes = []
    on_yield = None
    if profile:
        fast, slow = shared_state_fn(env)
        last = [fast(), slow()]

        def on_yield(sc, cur):
            now = fast()
            changed = now != last[0]
            if changed:
                last[0] = now
            if sc.step & 15 == 0:
                now2 = slow()
                if now2 != last[1]:
                    last[1] = now2
                    changed = True
            if changed:
                code, line = sc.last_loc
                writes.append({'t': cur.id, 'n': cur.nyield, 'loc': sc.loc_text(code, line),
                               'op': cur.cur_op})

    transient = []
    mutated = []
    repeats = []

    # interpreter-wide limits that decide what a plain-PyYAML (or yatiml) call in ANOTHER
    # thread does while this one is pre-empted: a call that changes them for its own
    # duration changes the behaviour of every concurrent call
    limits0 = (sys.getrecursionlimit(), sys.get_int_max_str_digits())
    transient_limits = []

    def on_switch(sc, cur, nxt, loc):
        if not transient and cheap() != cheap0:
            transient.append({'step': sc.step, 'loc': loc, 'from': cur.id, 'to': nxt.id})
        if not transient_limits and (sys.getrecursionlimit(), sys.get_int_max_str_digits()) != limits0:
            transient_limits.append({'step': sc.step, 'loc': loc, 'from': cur.id, 'to': nxt.id,
                                     'limits': [sys.getrecursionlimit(), sys.get_int_max_str_digits()],
                                     'at_start': list(limits0)})

    sc = sched.Scheduler(plan.get('tape'), yatiml_dir, yaml_dir, U.GEN_PREFIX,
                         scope=knobs.get('scope', 'core'),
                         granularity=knobs.get('granularity', 'line'),
                         max_steps=(PROFILE_MAX_STEPS if profile else knobs.get('max_steps', 2000000)),
                         traced=traced, on_switch=on_switch, on_yield=on_yield)

    repeat = max(1, int(knobs.get('repeat') or 1))

    def env_nested(tid):
        # (nested calls are made by the thread that runs the outer operation; with several
        # threads the shared list is split by the thread recorded at call time)
        mine = [x for x in env.nested_done if x[2] == tid]
        env.nested_done[:] = [x for x in env.nested_done if x[2] != tid]
        return [(a, b) for a, b, _ in mine]

    def make_body(tid, oplist):
        if repeat > 1:
            # a long history: the same operations over and over (count-dependent
            # state: bounded caches, counters, "every n-th call"); at most 16000 calls
            if repeat * len(oplist) > 16000:
                oplist = oplist[:max(1, 16000 // repeat)]

        def check_shared(op, out, i):
            j = op.get('shared')
            if j in env.shared and not mutated and out.get('status') in ('ok', 'exc') \
                    and not out.get('cancel_fired'):
                # (untraced: begin_op of the next operation re-arms tracing)
                sys.settrace(None)
                if canon.canon_graph(env.shared[j]) != shared0[j]:
                    mutated.append({'thread': tid, 'index': i, 'shared': j, 'op': op['op']})

        def body(th):
            for i, op in enumerate(oplist):
                inv = sc.step
                th.cur_op = i
                out = exec_op(env, op, th)
                sc.ops_done += 1
                history.append({'t': tid, 'i': i, 'op': op, 'out': out, 'inv': inv, 'ret': sc.step})
                for j, (nop, nout) in enumerate(env_nested(tid)):
                    history.append({'t': tid, 'i': 100000 + 100 * i + j, 'op': nop, 'out': nout,
                                    'inv': inv, 'ret': sc.step, 'nested_in': i})
                check_shared(op, out, i)
            if repeat <= 1:
                return
            # repetitions 2..n in a tight loop: an outcome is recorded only when it
            # differs from the previous outcome of the same operation, so that the
            # harness itself retains nothing between calls (a caller looping over
            # load() does not either, and address re-use patterns stay like theirs)
            env.retained = None     # (nothing is kept in the tight loop, exceptions included)
            last = {}
            for rec in history:
                if rec['t'] == tid:
                    last[rec['i']] = canon.short(comparable(rec['out']))
            n = len(oplist)
            for r in range(1, repeat):
                for i, op in enumerate(oplist):
                    if op['op'] == 'mk' and not knobs.get('churn'):
                        continue
                    th.cur_op = i
                    out = exec_op(env, op, th)
                    sc.ops_done += 1
                    for j, (nop, nout) in enumerate(env_nested(tid)):
                        ndg = canon.short(comparable(nout))
                        if last.get(('n', i, j)) != ndg:
                            last[('n', i, j)] = ndg
                            history.append({'t': tid, 'i': 100000 + 100 * (r * n + i) + j, 'op': nop,
                                            'out': nout, 'inv': sc.step, 'ret': sc.step, 'rep': r,
                                            'nested_in': r * n + i})
                    dg = canon.short(comparable(out))
                    if last.get(i) != dg:
                        last[i] = dg
                        history.append({'t': tid, 'i': r * n + i, 'op': op, 'out': out,
                                        'inv': sc.step, 'ret': sc.step, 'rep': r})
                        check_shared(op, out, r * n + i)
            repeats.append(repeat * n)
        return body

    for tid, oplist in enumerate(threads):
        sc.add_thread(make_body(tid, oplist))
    sc.run(join_timeout=knobs.get('join_timeout', 100))

    harness = []
    for t in sc.threads:
        if t.error:
            harness.append('thread {} harness error: {}'.format(t.id, t.error))
    if sc.abort and not sc.deadlock:
        if 'step cap' in sc.abort:
            # too costly a world for the budget: no verdict for this plan, counted
            return {'history': [], 'violations': [], 'harness': [], 'profile_aborted': True,
                    'stats': {'steps': sc.step}}
        harness.append(sc.abort)
    if sc.deadlock:
        violations.append({
            'oracle': 'every call returns: concurrent calls must not block each other forever',
            'signature': {'engine': 'world', 'oracle': 'deadlock'},
            'detail': {'reason': sc.abort}})
    if transient:
        violations.append({
            'oracle': 'PyYAML registries untouched (observed at a context switch)',
            'signature': {'engine': 'world', 'oracle': 'pyyaml-registries-transient'},
            'detail': transient[0]})

    if transient_limits:
        violations.append({
            'oracle': 'interpreter-wide limits (recursion, int digits) as other threads see them while a '
                      'call is in flight (observed at a context switch)',
            'signature': {'engine': 'world', 'oracle': 'process-limits-transient'},
            'detail': transient_limits[0]})

    # ---- quiescent oracles
    fp = deep_fingerprint()
    changed = sorted(k for k in fp if fp[k] != pristine_fp.get(k))
    if process_globals() != proc0:
        changed.append('process globals (recursion limit, switch interval)')
    if changed:
        violations.append({
            'oracle': 'PyYAML (and the yatiml base Loader/Dumper) registries equal the import-time state',
            'signature': {'engine': 'world', 'oracle': 'pyyaml-registries', 'what': changed[0]},
            'detail': {'changed': changed}})
    for (uid, name), (cls, snap) in snaps.items():
        now = class_snapshot(cls)
        if now != snap:
            a = {x[0]: x[1:] for x in snap}
            b = {x[0]: x[1:] for x in now}
            keys = sorted(set(a) ^ set(b)) or sorted(k for k in a if a[k] != b.get(k))
            violations.append({
                'oracle': "the user's classes are unchanged by creating and using yatiml functions",
                'signature': {'engine': 'world', 'oracle': 'user-class-changed'},
                'detail': {'class': '{}.{}'.format(uid, name), 'attributes': keys[:6]}})
            break
    if mutated:
        violations.append({
            'oracle': "a dumped object (graph) is left untouched",
            'signature': {'engine': 'world', 'oracle': 'user-object-changed'},
            'detail': dict(mutated[0], note='first operation after which the object differed; with '
                                            'concurrent threads another dump may have been in flight')})
    for k, v in env.shared.items():
        if mutated:
            break
        if canon.canon_graph(v) != shared0[k]:
            violations.append({
                'oracle': "a dumped object (graph) is left untouched",
                'signature': {'engine': 'world', 'oracle': 'user-object-changed'},
                'detail': {'shared': k, 'before': shared0[k], 'after': canon.canon_graph(v)}})
            break

    stats = {'steps': sc.step, 'switches': sc.switch_count, 'switch_digest': sc.digest(),
             'edges': sorted(sc.switch_edges)[:400], 'switch_log': sc.switch_log[:12],
             'cb_yields': sc.cb_yields, 'io_yields': sc.io_yields, 'lock_blocks': sc.lock_blocks,
             'cancel_locs': sc.cancel_locs[:8], 'traced': traced, 'hung': sc.hung,
             'writes': writes[:400], 'thread_yields': [t.nyield for t in sc.threads],
             'repeated_calls': sum(repeats)}
    return {'history': history, 'violations': violations, 'harness': harness, 'stats': stats}


# ------------------------------------------------------------ reference

def reference_request(plan, fnops, rec):
    """Self-contained, slot-independent description of one recorded operation."""
    op = dict(rec['op'])
    if op['op'] in ('gc', 'drop', 'rebuild'):
        return None
    # (the reference of an operation never contains the nested calls user code made
    # during it: they are other calls, which must not influence this one)
    op.pop('nest', None)
    specs_by_uid = {s['uid']: s for s in plan['specs']}
    need = []
    mk = None
    if op['op'] == 'mk':
        need.append(op['spec'])
        op['slot'] = 0
    elif op['op'] in ('load',) + DUMP_KINDS:
        mk = fnops.get(op['slot'])
        if mk is None:
            return None
        mk = dict(mk, slot=0)
        op['slot'] = 0
        need.append(mk['spec'])
        if 'shared' in op:
            sv = plan['_shared'].get(op.pop('shared'))
            if sv is None:
                return None
            op['val_spec'], op['val'] = sv
        if op.get('val_spec') and op['val_spec'] not in need:
            need.append(op['val_spec'])
        op['file'] = 'cfg.ref'
    op.pop('cancel', None)
    for u in list(need):
        par = specs_by_uid[u].get('import_from')
        if specs_by_uid[u].get('imported') and par and par not in need:
            need.append(par)
    # parents first
    need.sort(key=lambda u: 0 if not specs_by_uid[u].get('imported') else 1)
    return {'specs': [specs_by_uid[u] for u in need], 'mk': mk, 'op': op}


def run_reference(req):
    gc.disable()
    sys.setrecursionlimit(CHILD_RECURSION_LIMIT)
    mount = simio.Mount()
    try:
        with mount:
            env = Env(req['specs'], mount)
            if req['mk'] is not None:
                exec_op(env, req['mk'], None)
            out = exec_op(env, req['op'], None)
            return {'cmp': comparable(out), 'text': out.get('text')}
    finally:
        mount.destroy()


# ------------------------------------------------------------ directed schedules

HUGE = 10 ** 9
PROFILE_MAX_STEPS = 120000


def derive_tapes(prof, K, budget):
    """Explicit tapes that park one thread right after it wrote call-outliving
    state and let another thread run (to completion, or up to its own write).

    prof: {'writes': [{'t', 'n', 'loc'}], 'thread_yields': [...]}, measured on
    the no-switch schedule.  Thread-local yield counts do not depend on the
    interleaving as long as calls do not influence each other, so they are
    valid coordinates for other schedules of the same plan.
    """
    by_thread = collections.defaultdict(list)
    for w in prof.get('writes', ()):
        by_thread[w['t']].append(w)
    # per thread: first two occurrences of every distinct location, in order
    picked = {}
    for t, ws in by_thread.items():
        seen = collections.Counter()
        keep = []
        for w in ws:
            if seen[w['loc']] < 2:
                seen[w['loc']] += 1
                keep.append(w)
        picked[t] = keep
    tapes = []

    def pick_index(cur, target, done=()):
        others = [x for x in range(K) if x != cur and x not in done]
        return others.index(target)

    def head(a):
        # the scheduler starts thread 0; hand over to `a` after one step
        return [] if a == 0 else [[1, pick_index(0, a)]]

    rounds = []
    for a in sorted(picked):
        for b in range(K):
            if b == a:
                continue
            for w in picked[a]:
                rounds.append((a, b, w))
    # interleave so that a small budget still covers every (a, b) pair
    rounds.sort(key=lambda r: (picked[r[0]].index(r[2]), r[0], r[1]))
    for a, b, w in rounds:
        if len(tapes) >= budget:
            break
        n = w['n']
        e = head(a) + [[max(1, n), pick_index(a, b)], [HUGE, 0]]
        tapes.append({'entries': e, 'tail': None, 'why': 'park t{} after write at {}; t{} runs'.format(
            a, w['loc'], b)})
        wb = picked.get(b) or []
        if wb and len(tapes) < budget:
            # b runs only up to its own first write, then a resumes
            nb = wb[0]['n']
            if b == 0 and a != 0:
                nb = max(1, nb - 1)     # thread 0 already ran one step
            e2 = head(a) + [[max(1, n), pick_index(a, b)], [max(1, nb), pick_index(b, a)], [HUGE, 0]]
            tapes.append({'entries': e2, 'tail': None,
                          'why': 'park t{} after write at {}; t{} runs to its write at {}; back'.format(
                              a, w['loc'], b, wb[0]['loc'])})
    return tapes


def stride_tapes(prof, K, stride):
    """Single pre-emption at every k-th yield point of one thread (thorough tier).

    stride = {'thread': a, 'other': b, 'runs': n, 'offset': o}: thread a is parked at
    n evenly spaced yield points of its whole run (first at offset o) and thread b
    runs to completion in between.  Independent of where state is written, so it
    also reaches windows the write-point profile cannot see (state in closures or
    C objects).
    """
    ty = prof.get('thread_yields') or []
    if K < 2 or not ty:
        return []
    a = stride.get('thread', 0) % K
    b = stride.get('other', 1) % K
    if b == a:
        b = (a + 1) % K
    total = ty[a]
    runs = max(1, int(stride.get('runs', 50)))
    step = max(1, total // runs)
    off = 1 + stride.get('offset', 0) % step
    others_a = [x for x in range(K) if x != a]
    head = [] if a == 0 else [[1, [x for x in range(K) if x != 0].index(a)]]
    out = []
    n = off
    while n < total and len(out) < runs:
        out.append({'entries': head + [[n, others_a.index(b)], [HUGE, 0]], 'tail': None,
                    'why': 'stride: park t{} at its yield point {} of {}; t{} runs'.format(a, n, total, b)})
        n += step
    return out


# ------------------------------------------------------------ engine

class World(Engine):
    name = 'world'
    prop = 'C11'
    level = 'exploration'
    isolates_plans = True       # every plan runs in its own forked child

    def worker_init(self, tier):
        from sim import sched
        sched.patch_locks()
        import yaml
        import yatiml
        self.yatiml_dir = os.path.dirname(os.path.abspath(yatiml.__file__))
        self.yaml_dir = os.path.dirname(os.path.abspath(yaml.__file__))
        self.pristine_fp = deep_fingerprint()
        self.memo = isolate.Memo()
        self.tier = tier
        self.tmp = tempfile.mkdtemp(prefix='yatiml_world.')
        self._old_tmp = tempfile.tempdir
        tempfile.tempdir = self.tmp

    def worker_exit(self):
        tempfile.tempdir = self._old_tmp
        shutil.rmtree(self.tmp, ignore_errors=True)

    def budget(self, tier):
        if tier == 'quick':
            return {'wall_s': 50, 'max_examples': 12}
        return {'wall_s': 840, 'max_examples': 25}

    # ------------------------------------------------------------ strategy
    def strategy(self, tier):
        from sim import worldplans
        return worldplans.plans_strategy(tier)

    # ------------------------------------------------------------- execute
    def execute(self, plan, stats):
        """One plan; with knobs.sweep > 0 also its write-point-directed schedules."""
        import time
        t0 = time.monotonic()
        try:
            return self._execute(plan, stats)
        finally:
            slow = float(os.environ.get('VERIF_KEEP_SLOW') or 0)
            if slow and time.monotonic() - t0 > slow:
                print('slow plan {:.1f}s kept in {}'.format(time.monotonic() - t0, self.keep_plan(plan)),
                      file=sys.stderr)

    def _execute(self, plan, stats):
        sweep = int((plan.get('knobs') or {}).get('sweep') or 0)
        if (plan.get('knobs') or {}).get('stride') and sweep <= 0:
            sweep = 1
        if sweep <= 0 or len(plan['threads']) < 2:
            return self.execute_one(plan, stats)
        base = dict(plan, tape={'entries': [], 'tail': None})
        prof = {}
        violations = self.execute_one(base, stats, profile=prof)
        stats.count('sweep_profiles')
        if violations:
            for v in violations:
                v['replan'] = dict(base, knobs=dict(base.get('knobs') or {}, sweep=0))
            return violations
        if prof.get('aborted'):
            return self.execute_one(dict(plan, knobs=dict(plan.get('knobs') or {}, sweep=0)), stats)
        tapes = derive_tapes(prof, len(plan['threads']), sweep)
        stats.count('sweep_write_points', len(prof.get('writes', ())))
        for w in prof.get('writes', ()):
            stats.seen('write_locations', w['loc'])
        stride = (plan.get('knobs') or {}).get('stride')
        if stride:
            tapes = tapes + stride_tapes(prof, len(plan['threads']), stride)
        for tape in tapes:
            if self.out_of_time():
                stats.count('derived_schedules_cut_by_deadline')
                break
            p2 = dict(plan, tape=tape, knobs=dict(plan.get('knobs') or {}, sweep=0, stride=None))
            stats.count('stride_runs' if tape.get('why', '').startswith('stride') else 'sweep_runs')
            vs = self.execute_one(p2, stats)
            if vs:
                for v in vs:
                    v['replan'] = p2
                return vs
        return []

    def execute_one(self, plan, stats, profile=None):
        from sim.runner import HarnessError
        plan = dict(plan)
        shared = {}
        for op in plan['setup']:
            if op['op'] == 'mkval':
                shared[op['vslot']] = (op['spec'], op['val'])
        plan['_shared'] = shared
        pf, yd, ymd = self.pristine_fp, self.yatiml_dir, self.yaml_dir
        try:
            run = isolate.fork_call(
                lambda: run_plan(plan, pf, yd, ymd, profile is not None), timeout=700)
        except isolate.ChildFailure as e:
            raise HarnessError('simulated run failed: {} (plan kept in {})'.format(
                e, self.keep_plan(plan)))
        if run['harness']:
            raise HarnessError('{} (plan kept in {})'.format(
                '; '.join(run['harness'])[:2000], self.keep_plan(plan)))
        if run.get('profile_aborted'):
            if profile is not None:
                profile['aborted'] = True
                stats.count('sweep_profiles_too_long')
            else:
                stats.count('plans_skipped_step_cap')
            stats.count('yield_points', run['stats']['steps'])
            return []
        rs = run['stats']
        if profile is not None:
            profile['writes'] = rs['writes']
            profile['thread_yields'] = rs['thread_yields']
        violations = list(run['violations'])
        K = len(plan['threads'])
        mode = 'concurrent' if K > 1 else 'sequential'

        # which mk created each slot, in history order (setup first, then threads)
        fnops = {}
        for rec in run['history']:
            if rec['op']['op'] == 'mk' and rec['out']['status'] == 'ok':
                fnops[rec['op']['slot']] = rec['op']
        # ---- oracle 1: every operation equals its isolated reference
        seen_sig = set()
        n_cmp = 0
        failed_then_used = False
        last_failed = {}
        for rec in sorted(run['history'], key=lambda r: (r['ret'], r['t'], r['i'])):
            op, out = rec['op'], rec['out']
            st = out['status']
            stats.count('ops:' + op['op'])
            stats.count('op_status:' + st)
            if out.get('cancel_fired'):
                stats.count('fired:cancel')
            if out.get('cb_fired'):
                stats.count('fired:callback_exception', out['cb_fired'])
            if out.get('io_fired'):
                stats.count('fired:io_error', out['io_fired'])
            slot = op.get('slot')
            if op['op'] != 'mk' and slot is not None:
                if last_failed.get(slot):
                    failed_then_used = True
                    stats.count('probe:op_after_failed_or_cancelled_op_on_same_function')
                if st in ('exc', 'cancelled'):
                    last_failed[slot] = True
                if st == 'exc' and op['op'] in ('dumps_json', 'dump_json'):
                    stats.count('probe:failed_json_dump')
            if st in ('skipped', 'cancelled') or out.get('cancel_fired'):
                continue
            req = reference_request(plan, fnops, rec)
            if req is None:
                continue
            key = canon.digest(req)
            try:
                ref = self.memo.get(key, lambda: isolate.fork_call(
                    lambda: run_reference(req), timeout=120))
            except isolate.ChildFailure as e:
                raise HarnessError('reference call failed: {}'.format(e))
            got, want = comparable(out), ref['cmp']
            n_cmp += 1
            if 'RecursionError' in (got[1] if got[0] == 'exc' else '',
                                    want[1] if want[0] == 'exc' else ''):
                stats.count('recursion_error_not_compared')
                continue
            if got != want:
                sig = {'engine': 'world', 'oracle': 'isolated-outcome', 'mode': mode,
                       'op': op['op'], 'diff': diff_class(want, got)}
                k = canon.short(sig)
                if k not in seen_sig:
                    seen_sig.add(k)
                    violations.append({
                        'oracle': 'outcome equals the same call in a fresh process',
                        'signature': sig,
                        'detail': {'thread': rec['t'], 'index': rec['i'], 'op': op,
                                   'got': self.brief(got, out), 'want': self.brief(want, ref),
                                   'switches': rs['switches'], 'switch_log': rs['switch_log'],
                                   'switch_digest': rs['switch_digest']}})
        stats.count('ops_compared', n_cmp)
        stats.count('calls_in_long_histories', rs.get('repeated_calls', 0))
        if rs.get('repeated_calls'):
            stats.count('plans_with_long_history')
        stats.count('simulated_runs')
        stats.count('yield_points', rs['steps'])
        stats.count('switches', rs['switches'])
        stats.count('yields:callback_seam', rs['cb_yields'])
        stats.count('yields:io_seam', rs['io_yields'])
        stats.count('lock_blocks', rs['lock_blocks'])
        stats.count('plans:' + mode)
        if rs['traced']:
            stats.count('plans_traced')
        for e in rs['edges']:
            stats.seen('switch_edges', e)
        if rs['switches']:
            stats.seen('switch_signatures', rs['switch_digest'][:16])
        for loc in rs['cancel_locs']:
            stats.seen('cancel_locations', loc)
        # overlapping operations?
        recs = [r for r in run['history'] if r['t'] >= 0]
        overlap = any(a['t'] != b['t'] and a['inv'] < b['ret'] and b['inv'] < a['ret']
                      for i, a in enumerate(recs) for b in recs[i + 1:])
        if overlap:
            stats.count('probe:plans_with_overlapping_operations')
        if (K > 1 and overlap) or (K == 1 and failed_then_used):
            stats.seen('nontrivial', canon.short(
                [plan['specs'], plan['setup'], plan['threads'], plan.get('tape')]))
        self.probe_windows(rs, stats)
        if rs['switches'] or K == 1:
            stats.sample(self.sample_of(plan, run), cap=6)
        return violations

    @staticmethod
    def keep_plan(plan):
        import json
        from sim import runner
        os.makedirs(runner.REPLAY_DIR, exist_ok=True)
        p = {k: v for k, v in plan.items() if not k.startswith('_')}
        path = os.path.join(runner.REPLAY_DIR, 'harness-C11-{}.json'.format(canon.short(p)))
        with open(path, 'w') as f:
            json.dump({'property': 'C11', 'engine': 'world', 'plan': p,
                       'violation': {'signature': {'harness': True}}}, f, indent=1)
        return path

    @staticmethod
    def probe_windows(rs, stats):
        for _, _, _, loc in rs['switch_log']:
            if loc.startswith('yatiml/constructors.py'):
                stats.count('probe:switch_inside_constructors_py')
            elif loc.startswith('yatiml/loader.py'):
                stats.count('probe:switch_inside_loader_py')
            elif loc.startswith('yatiml/dumper.py'):
                stats.count('probe:switch_inside_dumper_py')
            elif loc.startswith('yatiml/recognizer.py'):
                stats.count('probe:switch_inside_recognizer_py')
            elif loc.startswith('yatiml/representers.py'):
                stats.count('probe:switch_inside_representers_py')
            elif loc.startswith('yaml/'):
                stats.count('probe:switch_inside_pyyaml')
            elif loc.startswith(U.GEN_PREFIX):
                stats.count('probe:switch_inside_user_class')
            elif loc == 'seam':
                stats.count('probe:switch_at_seam_call')

    @staticmethod
    def brief(cmp_, out):
        if cmp_[0] == 'ok':
            return {'status': 'ok', 'value': str(cmp_[1])[:400], 'trace': cmp_[2][:8],
                    'sink': None if cmp_[3] is None else cmp_[3][:300]}
        if cmp_[0] == 'exc':
            return {'status': 'exc', 'exc': cmp_[1], 'text': (out.get('text') or '')[:300],
                    'trace': cmp_[3][:8], 'sink': None if cmp_[4] is None else cmp_[4][:300]}
        return {'status': cmp_[0]}

    @staticmethod
    def sample_of(plan, run):
        def short_op(op):
            o = {k: v for k, v in op.items() if k in ('op', 'slot', 'kind', 'source', 'sink', 'cancel',
                                                      'cbf', 'iof', 'which', 'indent', 'shared', 'spec')}
            if 'doc' in op:
                o['doc'] = op['doc'][:60]
            return o
        return {'classes': [[s['uid']] + [c['name'] + ':' + c['kind'] for c in s['classes']]
                            for s in plan['specs']],
                'setup': [short_op(o) for o in plan['setup'] if o['op'] == 'mk'],
                'threads': [[short_op(o) for o in t] for t in plan['threads']],
                'tape': plan.get('tape'), 'knobs': plan.get('knobs'),
                'steps': run['stats']['steps'], 'switches': run['stats']['switches'],
                'first_switches': run['stats']['switch_log'][:4],
                'outcomes': [[r['t'], r['i'], r['out']['status']] for r in run['history']][:16]}

    # ------------------------------------------------------------ evidence
    def evidence(self, stats, tier):
        c = stats.counters
        fired = {k[6:]: v for k, v in c.items() if k.startswith('fired:')}
        probes = {k[6:]: v for k, v in c.items() if k.startswith('probe:')}
        opsk = {k[4:]: v for k, v in c.items() if k.startswith('ops:')}
        status = {k[10:]: v for k, v in c.items() if k.startswith('op_status:')}
        cov = {
            'evaluations': c.get('simulated_runs', 0),
            'plans_generated': c.get('evaluations', 0),
            'distinct_nontrivial': len(stats.distinct.get('nontrivial', ())),
            'rule': ('evaluations = simulated runs (a generated plan is run once under its own tape and, when '
                     'its sweep/stride knobs say so, again under every schedule derived from its profiling run). '
                     'A case is a plan: 1-3 class-model specs (class names drawn from a pool of six, so '
                     'different specs define different same-named classes), shared load/dump functions created '
                     'at setup, K in 1..4 client threads with operation lists (load from several source kinds, '
                     'dumps/dump/dumps_json/dump_json, function creation, plain-PyYAML probes, gc), a schedule '
                     'tape and faults attached to operations (callback exception, cancellation at the n-th '
                     'yield point, read/write error). Scenario plans: functions over subsets of one class set, '
                     'twin creation of one function by two threads, long tight-loop histories, churn '
                     '(create/use/drop/gc over two same-named class sets), two specs sharing a base class object. Each plan runs in a child forked from the pristine '
                     'worker; every finished operation is compared with the same operation in a fresh pristine '
                     'child in which only its own function exists. distinct_nontrivial counts distinct plans '
                     '(by digest of specs+setup+threads+tape) in which, for K>=2, at least two operations of '
                     'different threads overlapped in the global yield-point order, or, for K=1, an operation '
                     'followed a failed or cancelled operation on the same function.'),
            'samples': stats.samples[:6],
            'plans_concurrent': c.get('plans:concurrent', 0),
            'plans_sequential': c.get('plans:sequential', 0),
            'operations_by_kind': opsk,
            'operation_outcomes': status,
            'operations_compared_with_isolated_reference': c.get('ops_compared', 0),
            'logical_steps_yield_points': c.get('yield_points', 0),
            'context_switches': c.get('switches', 0),
            'distinct_switch_locations': len(stats.distinct.get('switch_edges', ())),
            'distinct_interleavings_by_switch_trace_digest': len(stats.distinct.get('switch_signatures', ())),
            'distinct_cancel_locations': len(stats.distinct.get('cancel_locations', ())),
            'faults_fired_by_kind': fired,
            'seam_yields': {'callback': c.get('yields:callback_seam', 0), 'io': c.get('yields:io_seam', 0)},
            'probes': probes,
            'lock_blocks': c.get('lock_blocks', 0),
            'plans_skipped_step_cap': c.get('plans_skipped_step_cap', 0),
            'long_histories': {'plans': c.get('plans_with_long_history', 0),
                               'calls': c.get('calls_in_long_histories', 0)},
            'directed_schedules': {'profiling_runs': c.get('sweep_profiles', 0),
                                   'profiles_too_long': c.get('sweep_profiles_too_long', 0),
                                   'write_points_found': c.get('sweep_write_points', 0),
                                   'distinct_write_locations': len(stats.distinct.get('write_locations', ())),
                                   'derived_schedule_runs': c.get('sweep_runs', 0),
                                   'stride_single_preemption_runs': c.get('stride_runs', 0)},
            'recursion_errors_not_compared': c.get('recursion_error_not_compared', 0),
            'simulated_time': ('not applicable: yatiml reads no clock and has no timers; the unit of progress '
                               'is the yield point (a traced source line / bytecode, a seam call)'),
            'real_vs_stub': dict(REAL_STUB, **{
                'threads': 'real threading.Thread objects; which one runs is decided only by the tape (baton passing)',
                'thread pre-emption': 'sys.settrace line/opcode events in yatiml, PyYAML (scope knob) and generated classes',
                'locks created by the code under test': 'cooperative SimLock (threading.Lock/RLock replaced before import)',
                'a fresh process': 'real: a child forked from the worker, which imports yatiml and never creates anything',
                'raw file device under the sim mount, duck streams': 'stub'}),
            'exhaustive': False,
        }
        return {'coverage': cov, 'assumptions': [
            'Pre-emption is at source-line (knob: bytecode, yatiml frames only) granularity inside yatiml, '
            'PyYAML and generated classes; C code is atomic, as it is under the GIL.',
            'Same outcome = same canonical value and callback trace, or same exception class and multiset of '
            'message tokens (addresses masked, source names dropped); a cancelled operation is not compared, '
            'every later operation is.',
            'The fresh-process reference is a fork of an image that has imported yatiml and created nothing.',
        ]}
