"""Fork isolation: "the same call in a fresh process" (DESIGN.md §3.6).

The worker process imports yatiml, PyYAML and the harness and then creates
*nothing*: no load/dump function, no class.  It stays pristine for its whole
life.  Every simulated run and every reference call is executed in a child
forked from that pristine image, so

  * a reference outcome is a pure function of its request (and can be memoised);
  * nothing a run does can leak into the next run of the same worker, so a
    violation always replays from its plan alone in a fresh interpreter.

The worker is single-threaded whenever it forks.
"""
import collections
import json
import os
import select
import signal
import time


class ChildFailure(Exception):
    """The child did not deliver a result (crashed, hung, bad output)."""


def fork_call(fn, timeout=120):
    """Runs fn() in a forked child; returns its JSON-serialisable result.

    Raises ChildFailure on timeout / crash (the child is killed).
    """
    r, w = os.pipe()
    pid = os.fork()
    if pid == 0:
        # ---- child
        code = 0
        try:
            os.close(r)
            try:
                res = {'ok': fn()}
            except BaseException as e:
                import traceback
                res = {'error': '{}: {}\n{}'.format(type(e).__name__, e, traceback.format_exc())}
            data = json.dumps(res, default=str).encode('utf-8')
            with os.fdopen(w, 'wb') as f:
                f.write(data)
        except BaseException:
            code = 3
        finally:
            os._exit(code)
    # ---- parent
    os.close(w)
    chunks = []
    deadline = time.monotonic() + timeout
    timed_out = False
    try:
        while True:
            left = deadline - time.monotonic()
            if left <= 0:
                timed_out = True
                break
            rd, _, _ = select.select([r], [], [], min(left, 5.0))
            if not rd:
                continue
            b = os.read(r, 1 << 16)
            if not b:
                break
            chunks.append(b)
    finally:
        os.close(r)
        if timed_out:
            try:
                os.kill(pid, signal.SIGKILL)
            except ProcessLookupError:
                pass
        _, status = os.waitpid(pid, 0)
    if timed_out:
        raise ChildFailure('child timed out after {}s'.format(timeout))
    if not chunks:
        raise ChildFailure('child produced no output (wait status {})'.format(status))
    try:
        res = json.loads(b''.join(chunks).decode('utf-8'))
    except ValueError as e:
        raise ChildFailure('child output unreadable: {}'.format(e))
    if 'error' in res:
        raise ChildFailure('child raised: ' + res['error'])
    return res['ok']


class Memo:
    """Bounded memo of reference outcomes keyed by request digest."""

    def __init__(self, cap=4096):
        self.cap = cap
        self.d = collections.OrderedDict()
        self.hits = 0
        self.misses = 0

    def get(self, key, compute):
        if key in self.d:
            self.hits += 1
            self.d.move_to_end(key)
            return self.d[key]
        self.misses += 1
        v = compute()
        self.d[key] = v
        if len(self.d) > self.cap:
            self.d.popitem(last=False)
        return v
