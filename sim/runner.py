"""Seeded batch runner, evidence, replay files, known findings (DESIGN.md §3.1, §3.7, §3.9)."""
import collections
import concurrent.futures
import faulthandler
import gc
import hashlib
import json
import multiprocessing
import os
import subprocess
import sys
import time
import traceback

from sim import isolate

VERIF = os.path.dirname(os.path.dirname(os.path.abspath(__file__)))
KNOWN_FILE = os.path.join(VERIF, 'known_findings.json')
# (the sensitivity suite points these at scratch directories: a run against a
# mutated copy must not overwrite the evidence of /repo itself)
REPLAY_DIR = os.environ.get('VERIF_REPLAY_DIR') or os.path.join(VERIF, 'replays')
EVIDENCE_DIR = os.environ.get('VERIF_EVIDENCE_DIR') or os.path.join(VERIF, 'evidence')


class Violation(Exception):
    """Raised inside the Hypothesis test function so that it shrinks."""


class HarnessError(Exception):
    """The machinery, not yatiml, misbehaved: exit 2, never a VIOLATION."""


class Stats:
    def __init__(self):
        self.counters = collections.Counter()
        self.distinct = collections.defaultdict(set)
        self.samples = []
        self.known = {}         # known-finding key -> (count, example)
        self.observations = []  # things worth reporting that are not violations
        self.slowest = (0.0, None)

    def count(self, name, n=1):
        self.counters[name] += n

    def seen(self, name, obj_digest):
        self.distinct[name].add(obj_digest)

    def sample(self, obj, cap=6):
        if len(self.samples) < cap:
            self.samples.append(obj)

    def observe(self, obj, cap=5):
        if len(self.observations) < cap:
            self.observations.append(obj)

    def export(self):
        return {'counters': dict(self.counters),
                'distinct': {k: sorted(v) for k, v in self.distinct.items()},
                'samples': self.samples,
                'known': self.known,
                'observations': self.observations,
                'slowest': self.slowest}

    @staticmethod
    def merge(exports):
        s = Stats()
        for e in exports:
            s.counters.update(e['counters'])
            for k, v in e['distinct'].items():
                s.distinct[k].update(v)
            for x in e['samples']:
                s.sample(x, cap=8)
            for k, (n, ex) in e['known'].items():
                if k in s.known:
                    s.known[k] = (s.known[k][0] + n, s.known[k][1])
                else:
                    s.known[k] = (n, ex)
            for x in e['observations']:
                s.observe(x, cap=10)
            if e.get('slowest') and e['slowest'][0] > s.slowest[0]:
                s.slowest = tuple(e['slowest'])
        return s


def load_known(prop):
    if not os.path.exists(KNOWN_FILE):
        return []
    with open(KNOWN_FILE) as f:
        data = json.load(f)
    return [e for e in data.get('findings', [])
            if e['property'] == prop and e['status'] == 'known']


def match_known(known, signature):
    for e in known:
        sig = e['signature']
        if all(signature.get(k) == v for k, v in sig.items()):
            return e
    return None


def hseed(seed, prop, w, j):
    h = hashlib.sha256('{}|{}|{}|{}'.format(seed, prop, w, j).encode()).digest()
    return int.from_bytes(h[:8], 'big')


def sig_key(sig):
    return json.dumps(sig, sort_keys=True)


def run_batch(engine, tier, hs, stats, known, max_examples, deadline, shrink_s=60):
    """One Hypothesis run = one seeded batch.  Returns None or a failure dict."""
    from hypothesis import HealthCheck, Phase, given, seed, settings

    failure = {}
    # engines that enumerate many runs per plan stop enumerating at this time
    engine.deadline = deadline + 20

    executed = []       # plans of this batch, in order (generation phase only)

    def classify(plan, shrinking):
        st = Stats() if shrinking else stats
        if not shrinking:
            executed.append(plan)
        violations = engine.execute(plan, st)
        fresh = []
        for v in violations:
            e = match_known(known, v['signature'])
            if e is not None:
                if not shrinking:
                    k = e['id']
                    n, ex = stats.known.get(k, (0, None))
                    stats.known[k] = (n + 1, ex or {'plan': plan, 'violation': v})
            else:
                fresh.append(v)
        return fresh

    @seed(hs)
    @settings(max_examples=max_examples, database=None, deadline=None,
              report_multiple_bugs=False, derandomize=False,
              phases=(Phase.generate, Phase.shrink),
              suppress_health_check=list(HealthCheck))
    @given(engine.strategy(tier))
    def test(plan):
        shrinking = bool(failure)
        if not shrinking and time.monotonic() > deadline:
            stats.count('skipped_after_deadline')
            return
        if shrinking and time.monotonic() > failure['shrink_deadline']:
            # shrink budget used up: let Hypothesis wind down quickly; the
            # best plan found so far is kept in `failure`
            return
        t_plan = time.monotonic()
        fresh = classify(plan, shrinking)
        dt = time.monotonic() - t_plan
        if dt > stats.slowest[0]:
            stats.slowest = (round(dt, 2), repr(plan)[:400])
        if not shrinking:
            stats.count('evaluations')
        else:
            stats.count('shrink_runs')
        if not fresh:
            return
        if not shrinking:
            failure['target'] = sig_key(fresh[0]['signature'])
            failure['shrink_deadline'] = time.monotonic() + shrink_s
            failure['first_index'] = len(executed) - 1
        hit = [v for v in fresh if sig_key(v['signature']) == failure['target']]
        if not hit:
            return
        v = dict(hit[0])
        # an engine may name the concrete plan (e.g. with the derived schedule
        # made explicit) that reproduces the violation on its own
        failure['plan'] = v.pop('replan', None) or plan
        failure['violation'] = v
        if 'first_plan' not in failure:
            # the plan as it was found, before any minimisation
            failure['first_plan'] = failure['plan']
            failure['first_violation'] = v
        raise Violation(failure['target'])

    try:
        test()
    except Violation:
        pass
    except Exception:
        # Hypothesis reports flakiness when the shrink budget cut it short
        if not failure:
            raise
    if failure:
        failure['hseed'] = hs
        failure.pop('shrink_deadline', None)
        # what this process had executed before the first failing plan
        failure['prefix'] = executed[:max(0, failure.pop('first_index', len(executed)) )]
        return failure
    return None


def _fails(engine, known, plans, target):
    """In a fresh child of the pristine worker: run plans in order; does the last one
    show a (non-known) violation with the target signature?"""
    def child():
        st = Stats()
        out = False
        for i, p in enumerate(plans):
            vs = engine.execute(p, st)
            if i == len(plans) - 1:
                out = any(match_known(known, v['signature']) is None
                          and sig_key(v['signature']) == target for v in vs)
        return out
    try:
        return bool(isolate.fork_call(child, timeout=300))
    except isolate.ChildFailure:
        return False


def confirm_with_prefix(engine, known, failure, budget_s=90):
    """A failure found inside a batch: standalone, or only after earlier cases?

    Cross-case state in the code under test (a module-level cache, say) makes a
    case fail only after certain earlier cases of the same process.  Then the
    replay file carries those earlier cases ('prefix', minimised by delta
    debugging) and replays them first."""
    target = sig_key(failure['violation']['signature'])
    plan = failure['plan']
    prefix = failure.pop('prefix', None) or []
    if _fails(engine, known, [plan], target):
        return failure
    if not prefix or not _fails(engine, known, prefix + [plan], target):
        failure['unconfirmed_in_worker'] = True
        return failure
    t_end = time.monotonic() + budget_s
    n = 2
    while len(prefix) >= 2 and time.monotonic() < t_end:
        chunk = max(1, len(prefix) // n)
        reduced = False
        for i in range(0, len(prefix), chunk):
            cand = prefix[:i] + prefix[i + chunk:]
            if time.monotonic() > t_end:
                break
            if _fails(engine, known, cand + [plan], target):
                prefix = cand
                n = max(n - 1, 2)
                reduced = True
                break
        if not reduced:
            if chunk == 1:
                break
            n = min(n * 2, len(prefix))
    if len(prefix) == 1 and time.monotonic() < t_end and _fails(engine, known, [plan], target):
        prefix = []
    failure['prefix'] = prefix
    failure['violation'] = dict(failure['violation'], needs_earlier_cases=len(prefix))
    return failure


def _worker(args):
    (engine_name, tier, seed_, w, nworkers, batches, max_examples, wall_s, watchdog_s) = args
    faulthandler.enable()
    faulthandler.dump_traceback_later(watchdog_s, exit=True)
    try:
        from sim import engines
        engine = engines.make(engine_name)
        engine.worker_init(tier)
        known = load_known(engine.prop)
        stats = Stats()
        deadline = time.monotonic() + wall_s
        failure = None
        done = 0
        for j in range(batches):
            if time.monotonic() > deadline:
                break
            hs = hseed(seed_, engine.prop, w, j)
            shrink_s = 60 if tier == 'quick' else 300
            if getattr(engine, 'isolates_plans', False):
                # (the engine forks per plan itself: the worker stays pristine anyway)
                failure = run_batch(engine, tier, hs, stats, known, max_examples, deadline, shrink_s)
                if failure:
                    failure.pop('prefix', None)
            else:
                # the batch runs in a child forked from this (pristine) worker, so that
                # state the code under test keeps between cases cannot outlive the batch,
                # and a failure is known together with everything that preceded it
                def child():
                    st = Stats()
                    fl = run_batch(engine, tier, hs, st, known, max_examples, deadline, shrink_s)
                    return {'stats': st.export(), 'failure': fl}
                res = isolate.fork_call(child, timeout=max(120, (deadline - time.monotonic()) + shrink_s + 240))
                stats = Stats.merge([stats.export(), res['stats']])
                failure = res['failure']
                if failure:
                    failure = confirm_with_prefix(engine, known, failure)
            done += 1
            if failure:
                failure['worker'] = w
                failure['batch'] = j
                break
            gc.collect()
        engine.worker_exit()
        faulthandler.cancel_dump_traceback_later()
        return {'w': w, 'stats': stats.export(), 'failure': failure,
                'batches_done': done, 'error': None,
                'wall': time.monotonic() - deadline + wall_s}
    except BaseException:
        faulthandler.cancel_dump_traceback_later()
        return {'w': w, 'stats': Stats().export(), 'failure': None,
                'batches_done': 0, 'error': traceback.format_exc()}


def write_replay(engine, seed_, failure):
    os.makedirs(REPLAY_DIR, exist_ok=True)
    body = {
        'property': engine.prop,
        'engine': engine.name,
        'seed': seed_,
        'hseed': failure.get('hseed'),
        'worker': failure.get('worker'),
        'batch': failure.get('batch'),
        'plan': failure['plan'],
        'violation': failure['violation'],
    }
    if failure.get('prefix'):
        # earlier cases of the same process that are needed for the violation to show
        body['prefix'] = failure['prefix']
    dg = hashlib.sha256(json.dumps(body, sort_keys=True, default=str).encode()).hexdigest()[:12]
    path = os.path.join(REPLAY_DIR, '{}-{}-{}.json'.format(engine.prop, seed_, dg))
    with open(path, 'w') as f:
        json.dump(body, f, indent=1, default=str)
    return path


def confirm_fresh(path, hashseed='4242'):
    """Replay in a fresh interpreter (by default under another PYTHONHASHSEED)."""
    env = dict(os.environ)
    env['PYTHONHASHSEED'] = hashseed
    try:
        p = subprocess.run(
            [sys.executable, os.path.join(VERIF, 'run_check.py'), '--replay', path],
            env=env, capture_output=True, text=True, timeout=600)
    except subprocess.TimeoutExpired:
        return None
    return p.returncode == 1 and 'VIOLATION' in p.stdout


def replay(path):
    from sim import engines
    with open(path) as f:
        body = json.load(f)
    engine = engines.make(body['engine'])
    engine.worker_init('quick')
    known = load_known(engine.prop)
    want = sig_key(body['violation']['signature'])
    st = Stats()
    for p in body.get('prefix') or []:
        engine.execute(p, Stats())      # earlier cases of the same process, replayed first
    violations = engine.execute(body['plan'], st)
    engine.worker_exit()
    fresh = [v for v in violations if match_known(known, v['signature']) is None]
    same = [v for v in fresh if sig_key(v['signature']) == want]
    if same:
        print('VIOLATION property={} replay={}'.format(engine.prop, path))
        print(json.dumps(same[0], indent=1, default=str)[:4000])
        return 1
    if fresh:
        print('VIOLATION property={} replay={}'.format(engine.prop, path))
        print('replay fails, with a different signature than recorded:')
        print(json.dumps(fresh[0], indent=1, default=str)[:4000])
        return 1
    print('replay of {} did not reproduce the violation on this tree'.format(path))
    return 0


TIERS = {
    # per-engine overrides come from engine.budget(tier)
    'quick': {'wall_s': 60, 'batches': 10 ** 6, 'max_examples': 40},
    'thorough': {'wall_s': 900, 'batches': 10 ** 6, 'max_examples': 60},
}


def run_check(engine_name, tier, seed_, nworkers=None):
    from sim import engines
    t0 = time.time()
    engine = engines.make(engine_name)
    budget = dict(TIERS[tier])
    budget.update(engine.budget(tier))
    if os.environ.get('VERIF_WALL_S'):
        budget['wall_s'] = float(os.environ['VERIF_WALL_S'])
    if nworkers is None:
        nworkers = int(os.environ.get('VERIF_WORKERS', '0')) or min(16, os.cpu_count() or 1)
    watchdog = int(budget['wall_s'] * 3 + 600)
    args = [(engine_name, tier, seed_, w, nworkers, budget['batches'],
             budget['max_examples'], budget['wall_s'], watchdog)
            for w in range(nworkers)]
    ctx = multiprocessing.get_context('fork')
    results = []
    errors = []
    try:
        with concurrent.futures.ProcessPoolExecutor(nworkers, mp_context=ctx) as ex:
            futs = [ex.submit(_worker, a) for a in args]
            for f in futs:
                try:
                    results.append(f.result(timeout=watchdog + 60))
                except Exception as e:
                    errors.append('worker died: {!r}'.format(e))
    except Exception as e:      # BrokenProcessPool etc.
        errors.append('pool failure: {!r}'.format(e))
    for r in results:
        if r['error']:
            errors.append('worker {} raised:\n{}'.format(r['w'], r['error']))
    stats = Stats.merge([r['stats'] for r in results])
    failures = [r['failure'] for r in results if r['failure']]
    wall = time.time() - t0

    known = load_known(engine.prop)
    lines = []
    for e in known:
        if e['id'] in stats.known:
            lines.append('KNOWN-FINDING: property={} {} (seen {} times this run)'.format(
                engine.prop, e['text'], stats.known[e['id']][0]))
        else:
            lines.append('KNOWN-FINDING: property={} {} (not re-encountered in this run)'.format(
                engine.prop, e['text']))

    replay_paths = []
    seen_sigs = set()
    for fl in failures:
        k = sig_key(fl['violation']['signature'])
        if k in seen_sigs or len(seen_sigs) >= 3:
            continue
        seen_sigs.add(k)
        path = write_replay(engine, seed_, fl)
        ok = confirm_fresh(path)
        same = ok or confirm_fresh(path, '0')
        with open(path) as f:
            body = json.load(f)
        body['confirmed_fresh'] = ok
        body['confirmed_fresh_same_hashseed'] = bool(same)
        with open(path, 'w') as f:
            json.dump(body, f, indent=1, default=str)
        if not same and fl.get('first_plan') is not None and fl['first_plan'] != fl['plan']:
            # the minimised plan does not replay in a fresh interpreter; the plan as it
            # was found may (a defect that depends on how much happened - addresses
            # re-used, counters saturating - can sit right at the edge after shrinking)
            fl2 = dict(fl, plan=fl['first_plan'], violation=fl.get('first_violation') or fl['violation'])
            path2 = write_replay(engine, seed_, fl2)
            ok = confirm_fresh(path2)
            same = ok or confirm_fresh(path2, '0')
            if same:
                with open(path2) as f:
                    body = json.load(f)
                body['confirmed_fresh'] = ok
                body['confirmed_fresh_same_hashseed'] = True
                body['note'] = ('unminimised: the minimised plan ({}) did not replay in a fresh '
                                'interpreter'.format(os.path.basename(path)))
                with open(path2, 'w') as f:
                    json.dump(body, f, indent=1, default=str)
                path, fl = path2, fl2
        if not same:
            # found once, not reproducible from its replay file: the machinery is
            # at fault (a source of nondeterminism it does not own) - no verdict
            errors.append('violation {} did not reproduce from its replay file {} in a fresh '
                          'interpreter (no verdict)'.format(
                              json.dumps(fl['violation'].get('signature')), path))
            continue
        replay_paths.append((path, ok, fl))

    evidence = engine.evidence(stats, tier)
    ev = {
        'property_id': engine.prop,
        'tier': tier,
        'seed': seed_,
        'level': engine.level,
        'coverage': evidence['coverage'],
        'assumptions': evidence['assumptions'],
        'wall_s': round(wall, 2),
        'violations': len(replay_paths),
    }
    cov = ev['coverage']
    cov['workers'] = nworkers
    cov['batches_done'] = sum(r['batches_done'] for r in results)
    cov['hypothesis_seeds_used'] = cov['batches_done']
    ev_n = cov.get('evaluations', 0)
    cov['runs_per_hour_extrapolated'] = int(ev_n / wall * 3600) if wall > 0 else 0
    cov['seeds_per_hour_extrapolated'] = int(cov['batches_done'] / wall * 3600) if wall > 0 else 0
    cov['shrink_runs'] = stats.counters.get('shrink_runs', 0)
    cov['known_findings_seen'] = {k: v[0] for k, v in stats.known.items()}
    cov['observations'] = stats.observations
    cov['harness_errors'] = [e[-800:] for e in errors[:3]]
    cov['slowest_plan_wall_s'] = stats.slowest[0]
    cov['slowest_plan'] = stats.slowest[1]
    cov['worker_wall_s'] = sorted(round(r.get('wall', 0), 1) for r in results)
    os.makedirs(EVIDENCE_DIR, exist_ok=True)
    with open(os.path.join(EVIDENCE_DIR, engine.prop + '.json'), 'w') as f:
        json.dump(ev, f, indent=1, default=str)

    print('check {} tier={} seed={} workers={} wall={:.1f}s evaluations={} distinct_nontrivial={}'.format(
        engine.prop, tier, seed_, nworkers, wall, cov.get('evaluations'), cov.get('distinct_nontrivial')))
    for ln in lines:
        print(ln)
    for path, ok, fl in replay_paths:
        print('VIOLATION property={} replay={}'.format(engine.prop, path))
        print('  confirmed in a fresh interpreter under another PYTHONHASHSEED: {}'.format(ok))
        print('  ' + json.dumps(fl['violation'], default=str)[:1500])
    if replay_paths:
        return 1
    if errors:
        print('HARNESS ERROR (no verdict):')
        for e in errors[:5]:
            print(e)
        return 2
    if cov.get('evaluations', 0) < 1:
        print('HARNESS ERROR: nothing was evaluated')
        return 2
    return 0
