"""Self-tests of the simulator (DESIGN.md §3.8).

  run_check.py --selftest determinism [Cxx]

For each engine (or the one serving Cxx): draw N seeded plans, execute each
twice in this process, once more in a fresh interpreter under another
PYTHONHASHSEED and once in a fresh interpreter with the same one, and compare
per-plan digests of everything the engine observed (violations, counters,
distinct sets - for C11 that includes the switch-trace digest, i.e. the exact
interleaving - and samples).  Exit 0 iff all digests agree.
"""
import json
import os
import subprocess
import sys
import tempfile

from sim import canon

VERIF = os.path.dirname(os.path.dirname(os.path.abspath(__file__)))


def draw_plans(engine, tier, n, seed_):
    from hypothesis import HealthCheck, Phase, given, seed, settings
    out = []

    @seed(seed_)
    @settings(max_examples=n, database=None, deadline=None, phases=(Phase.generate,),
              suppress_health_check=list(HealthCheck))
    @given(engine.strategy(tier))
    def collect(plan):
        out.append(plan)
    collect()
    return out


def plan_digest(engine, plan):
    from sim.runner import Stats
    st = Stats()
    v = engine.execute(plan, st)
    e = st.export()
    # counters and distinct sets (for C11: yield points, switches, the switch-trace
    # digests, i.e. the exact interleavings) and the violation signatures.  Not the
    # free-text samples: three yatiml messages enumerate a set of classes in
    # address order (handled by the oracles through token multisets).
    return canon.digest([[x['signature'] for x in v], e['counters'], e['distinct']])


def digests(engine_name, plans):
    from sim import engines
    engine = engines.make(engine_name)
    engine.worker_init('quick')
    try:
        return [plan_digest(engine, p) for p in plans]
    finally:
        engine.worker_exit()


def main(what, prop=None):
    from sim import engines
    if what == 'digest':
        # child mode: prop is "<engine>:<plans file>"
        name, path = prop.split(':', 1)
        with open(path) as f:
            plans = json.load(f)
        print('DIGESTS ' + json.dumps(digests(name, plans)))
        return 0
    if what != 'determinism':
        print('unknown selftest', what)
        return 2
    n = int(os.environ.get('VERIF_SELFTEST_N', '60'))
    names = [engines.BY_PROP[prop]] if prop else sorted(set(engines.BY_PROP.values()))
    bad = 0
    for name in names:
        engine = engines.make(name)
        plans = draw_plans(engine, 'quick', n, 20240601 + int(os.environ.get('VERIF_SEED', '0') or 0))
        # through JSON, as a replay file would carry them
        plans = json.loads(json.dumps(plans))
        a = digests(name, plans)
        b = digests(name, plans)
        fd, path = tempfile.mkstemp(prefix='selftest.', suffix='.json')
        with os.fdopen(fd, 'w') as f:
            json.dump(plans, f)
        others = {}
        try:
            for hs in ('12345', '0'):
                env = dict(os.environ, PYTHONHASHSEED=hs)
                p = subprocess.run([sys.executable, os.path.join(VERIF, 'run_check.py'),
                                    '--selftest', 'digest', '{}:{}'.format(name, path)],
                                   env=env, capture_output=True, text=True, timeout=3600)
                line = [ln for ln in p.stdout.splitlines() if ln.startswith('DIGESTS ')]
                if p.returncode != 0 or not line:
                    print('selftest child failed ({}):\n{}\n{}'.format(hs, p.stdout[-2000:], p.stderr[-2000:]))
                    return 2
                others[hs] = json.loads(line[0][8:])
        finally:
            os.unlink(path)
        diffs = []
        for i in range(len(plans)):
            row = [a[i], b[i], others['12345'][i], others['0'][i]]
            if len(set(row)) != 1:
                diffs.append((i, row))
        print('engine {:<10} plans={} same-process-twice/fresh-other-hashseed/fresh-same-hashseed: '
              '{} divergent'.format(name, len(plans), len(diffs)))
        for i, row in diffs[:5]:
            print('  plan {}: {}'.format(i, [r[:10] for r in row]))
            print('  ' + json.dumps(plans[i])[:600])
        bad += len(diffs)
    return 1 if bad else 0
