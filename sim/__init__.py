"""Deterministic simulation harness for yatiml (see /verif/DESIGN.md)."""
import os
import sys

# The tree under test: /repo by default (through the editable install), or the
# scratch copy named by VERIF_REPO (used by the sensitivity suite only).
_repo = os.environ.get('VERIF_REPO')
if _repo and _repo not in sys.path:
    sys.path.insert(0, _repo)
