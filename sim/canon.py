"""Canonical outcomes: values, exceptions, messages (DESIGN.md §3.6)."""
import collections
import datetime
import enum
import hashlib
import json
import math
import pathlib
import re


def canon(v, depth=0):
    """Structural, JSON-serialisable image of a loaded value."""
    if depth > 60:
        return ['deep']
    if v is None:
        return ['none']
    if isinstance(v, enum.Enum):
        # (before int/str: members of mixin enums are ints / strs too)
        return ['enum', getattr(type(v), '_sim_uid', None) or type(v).__name__, v.name]
    if isinstance(v, bool):
        return ['bool', v]
    if isinstance(v, int):
        return ['int', str(v)]
    if isinstance(v, float):
        if math.isnan(v):
            return ['float', 'nan']
        return ['float', repr(v)]
    uid = getattr(type(v), '_sim_uid', None)
    if isinstance(v, enum.Enum):
        return ['enum', uid or type(v).__name__, v.name]
    if isinstance(v, str):
        if uid is not None:
            return ['strsub', uid, str(v)]
        return ['str', v]
    if isinstance(v, collections.UserString):
        return ['ustr', uid or type(v).__name__, str(v.data)]
    if isinstance(v, datetime.datetime):
        return ['datetime', v.isoformat()]
    if isinstance(v, datetime.date):
        return ['date', v.isoformat()]
    if isinstance(v, pathlib.PurePath):
        return ['path', str(v)]
    if isinstance(v, list):
        return ['list', [canon(x, depth + 1) for x in v]]
    if isinstance(v, tuple):
        return ['tuple', [canon(x, depth + 1) for x in v]]
    if isinstance(v, dict):
        return [type(v).__name__,
                [[canon(k, depth + 1), canon(x, depth + 1)] for k, x in v.items()]]
    if isinstance(v, (set, frozenset)):
        return ['set', sorted(json.dumps(canon(x, depth + 1)) for x in v)]
    if isinstance(v, bytes):
        return ['bytes', v.hex()]
    if uid is not None:
        try:
            d = vars(v)
        except TypeError:
            d = {}
        return ['obj', uid, [[k, canon(x, depth + 1)] for k, x in d.items()]]
    return ['other', type(v).__module__ + '.' + type(v).__qualname__]


def canon_graph(v):
    """canon(v) plus the sharing structure: which containers/objects are the
    same object (numbered in first-visit order)."""
    seen = {}
    shape = []

    def walk(x, depth):
        if depth > 60:
            return
        if isinstance(x, (list, dict, tuple, set)) or getattr(type(x), '_sim_uid', None) is not None \
                and not isinstance(x, (str, enum.Enum, collections.UserString)):
            k = id(x)
            if k in seen:
                shape.append(['ref', seen[k]])
                return
            seen[k] = len(seen)
            shape.append(['new', seen[k]])
            if isinstance(x, dict):
                for a, b in x.items():
                    walk(a, depth + 1)
                    walk(b, depth + 1)
            elif isinstance(x, (list, tuple)):
                for a in x:
                    walk(a, depth + 1)
            elif not isinstance(x, set):
                try:
                    for a in vars(x).values():
                        walk(a, depth + 1)
                except TypeError:
                    pass
    walk(v, 0)
    return [canon(v), shape]


_ADDR = re.compile(r'0x[0-9a-fA-F]+')
# in "<unicode string>", line 1, column 1   /  in "/path/x.yaml", line ..
_IN_SRC = re.compile(
    r'in "[^"\n]*", (line \d+, column \d+)(?::\n[^\n]*\n[ ]*\^)?')
_POSITION = re.compile(r'position \d+')
_READER_SRC = re.compile(r'\n  in "[^"\n]*"')
_TOKEN = re.compile(r'[A-Za-z0-9_.\-]+|[^\sA-Za-z0-9_.\-]')


def norm_message(msg):
    """Normalised message as a sorted token list (DESIGN.md §3.6)."""
    msg = _ADDR.sub('0xADDR', msg)
    msg = _IN_SRC.sub(r'in SRC, \1', msg)
    msg = _READER_SRC.sub('\n  in SRC', msg)
    msg = _POSITION.sub('position N', msg)
    # text-mode sources hand yatiml '\n' where the document has '\r\n' or '\r'
    # (Python's universal newlines); a message quoting the line break it found
    # (PyYAML uses %r) is the same error whichever spelling it quotes
    msg = msg.replace("'\\r\\n'", "'\\n'").replace("'\\r'", "'\\n'")
    toks = _TOKEN.findall(msg)
    return sorted(toks)


def exc_name(e):
    t = type(e)
    mod = t.__module__
    if mod in ('builtins',):
        return t.__qualname__
    return mod + '.' + t.__qualname__


def canon_exc(e, norm=None):
    try:
        msg = str(e)
    except Exception as e2:     # pragma: no cover
        msg = '<unprintable {}>'.format(type(e2).__name__)
    if norm is not None:
        msg = norm(msg)
    return exc_name(e), norm_message(msg)


def digest(obj):
    return hashlib.sha256(
        json.dumps(obj, sort_keys=True, default=str).encode()).hexdigest()


def short(obj):
    return digest(obj)[:16]
