"""Hypothesis strategies drawing explicit C11 plans (worlds).  Plain JSON out."""
from hypothesis import strategies as st

from sim import plans
from sim import seam
from sim import universe as U

FN_KINDS = ['load'] * 5 + ['dumps', 'dumps', 'dump', 'dumps_json', 'dumps_json', 'dump_json']
RUNS = [1, 2, 3, 5, 8, 13, 21, 34, 55, 89, 144, 233, 377, 610, 987, 1597, 2584, 4181,
        6765, 10946, 17711, 28657, 46368]
CB_EXCS = ['ValueError', 'TypeError', 'KeyError', 'RuntimeError', 'UserBoom', 'StopIteration']


@st.composite
def mk_ops(draw, specs, slot):
    si = draw(st.integers(0, len(specs) - 1))
    spec = specs[si]
    kind = draw(st.sampled_from(FN_KINDS))
    names = [c['name'] for c in spec['classes']]
    order = list(draw(st.permutations(names)))
    op = {'op': 'mk', 'slot': slot, 'kind': kind, 'spec': spec['uid'], 'order': order}
    if len(names) > 1 and draw(st.integers(0, 2)) == 0:
        # a function over a subset of the same classes (load_function(Shape) next
        # to load_function(Shape, Circle))
        k = draw(st.integers(1, len(names) - 1))
        op['only'] = sorted(draw(st.permutations(names))[:k])
    if kind == 'load':
        roots = plans.root_types(spec)
        if draw(st.integers(0, 7)) == 0:
            op['root'] = None           # yatiml.load_function(): untyped
        else:
            op['root'] = draw(st.sampled_from(roots))
    return op


def _spec(specs, uid):
    for s in specs:
        if s['uid'] == uid:
            return s
    raise KeyError(uid)


@st.composite
def run_lengths(draw, hi=len(RUNS) - 1):
    i = draw(st.integers(0, hi))
    base = RUNS[i]
    return base + draw(st.integers(0, max(0, base // 2)))


@st.composite
def fault_fields(draw, op, traced_ok=True):
    """Optionally attaches a fault to an operation (never idle: inside the op)."""
    r = draw(st.integers(0, 19))
    if r < 3:
        f = {'exc': draw(st.sampled_from(CB_EXCS)), 'args': draw(st.sampled_from(['msg', 'none']))}
        op['cbf'] = {str(draw(st.integers(0, 6))): f}
    elif r < 5 and traced_ok:
        op['cancel'] = draw(run_lengths(hi=len(RUNS) - 3))
    elif r < 7:
        if op['op'] == 'load' and op.get('source') in ('path', 'duck_text', 'duck_binary'):
            op['iof'] = {'at': draw(st.integers(0, max(1, len(op['doc']))))}
        elif op['op'] in ('dump', 'dump_json') and op.get('sink') in ('duck', 'duck_flush', 'path', 'strpath'):
            op['iof'] = {'at': draw(st.integers(0, 12))}
    return op


@st.composite
def load_ops(draw, specs, mk):
    own = _spec(specs, mk['spec'])
    other = [s for s in specs if s['uid'] != mk['spec']]
    root = mk.get('root')
    if other and draw(st.integers(0, 3)) == 0:
        # a document written for another function's classes (plain or tagged)
        src_spec = draw(st.sampled_from(other))
        r = draw(st.sampled_from(plans.root_types(src_spec)))
        doc, _, _ = draw(plans.doc_texts(src_spec, r, p_corrupt=0.3))
    elif root is None:
        r = draw(st.sampled_from(plans.root_types(own)))
        doc, _, _ = draw(plans.doc_texts(own, r, p_corrupt=0.3))
    else:
        doc, _, _ = draw(plans.doc_texts(own, root, p_corrupt=0.4))
    op = {'op': 'load', 'slot': mk['slot'], 'doc': doc,
          'source': draw(st.sampled_from(['str', 'str', 'str', 'stringio', 'bytesio', 'path',
                                          'duck_text', 'duck_binary']))}
    try:
        doc.encode('utf-8')
    except UnicodeEncodeError:
        op['source'] = 'str'
    if op['source'] in ('path', 'duck_text', 'duck_binary'):
        op['chunks'] = draw(st.sampled_from([None, [1], [3, 7], [16], [4096]]))
    return draw(fault_fields(op))


@st.composite
def dump_values(draw, specs, mk):
    own = _spec(specs, mk['spec'])
    other = [s for s in specs if s['uid'] != mk['spec']]
    if other and draw(st.integers(0, 4)) == 0:
        vs = draw(st.sampled_from(other))       # an object the function has never heard of
    else:
        vs = own
    roots = plans.root_types(vs)
    root = draw(st.sampled_from(roots))
    val = draw(plans.values(vs, root))
    r = draw(st.integers(0, 11))
    if r == 0:
        val = {'k': 'list', 'v': [val, {'k': 'ref', 'i': draw(st.integers(0, 3))}]}
    elif r == 1:
        val = {'k': 'dict', 'v': [['a', val], ['b', {'k': 'alien', 'c': 'Alien'}]]}
    elif r == 2:
        val = {'k': 'odict', 'v': [['z', val], ['a', {'k': 'int', 'v': 1}]]}
    return vs['uid'], val


@st.composite
def dump_ops(draw, specs, mk, shared):
    kind = mk['kind']
    op = {'op': kind, 'slot': mk['slot']}
    cands = [j for j, (uid, _) in shared.items()]
    if cands and draw(st.integers(0, 2)) == 0:
        op['shared'] = draw(st.sampled_from(cands))
    else:
        op['val_spec'], op['val'] = draw(dump_values(specs, mk))
    if kind in ('dumps_json', 'dump_json'):
        op['indent'] = draw(st.sampled_from([None, None, 0, 2, 4]))
        op['ensure_ascii'] = draw(st.booleans())
    if kind in ('dump', 'dump_json'):
        op['sink'] = draw(st.sampled_from(['stringio', 'stringio', 'duck', 'duck_flush', 'path', 'strpath']))
        if op['sink'] in ('path', 'strpath'):
            op['pre'] = draw(st.booleans())
            op['chunks'] = draw(st.sampled_from([None, [1], [5]]))
    return draw(fault_fields(op))


@st.composite
def tapes(draw, tier):
    mode = draw(st.sampled_from(['pct', 'pct', 'pct', 'geo', 'geo', 'quantum', 'none']))
    if mode == 'none':
        return {'entries': [], 'tail': None}
    if mode == 'pct':
        n = draw(st.integers(1, 4))
        return {'entries': [[draw(run_lengths()), draw(st.integers(0, 3))] for _ in range(n)],
                'tail': None}
    if mode == 'geo':
        n = draw(st.integers(4, 30))
        hi = draw(st.sampled_from([4, 8, 12, 16, 20]))
        ent = [[draw(run_lengths(hi=hi)), draw(st.integers(0, 3))] for _ in range(n)]
        tail = None
        if draw(st.booleans()):
            tail = {'q': draw(st.sampled_from([50, 200, 1000, 5000])),
                    'picks': draw(st.lists(st.integers(0, 3), min_size=1, max_size=3))}
        return {'entries': ent, 'tail': tail}
    q = draw(st.sampled_from([3, 5, 10, 25, 50, 100, 200, 500, 2000]))
    head = []
    if draw(st.booleans()):
        head = [[draw(run_lengths()), draw(st.integers(0, 3))]]
    return {'entries': head,
            'tail': {'q': q, 'picks': draw(st.lists(st.integers(0, 3), min_size=1, max_size=4))}}


@st.composite
def world_plans(draw, tier):
    nspecs = draw(st.sampled_from([1, 1, 2, 2, 2, 3]))
    specs = [draw(plans.specs('s{}'.format(i), max_classes=4)) for i in range(nspecs)]
    if draw(st.integers(0, 3 if nspecs >= 2 else 7)) == 0:
        # two applications on one library base class, each with its own same-named subclass
        v = shared_base_variant(specs[0], 's1')
        if v is None:
            # give the first application a simple derived class to begin with
            bases = [c for c in specs[0]['classes'] if c['kind'] == 'regular' and not c.get('base')
                     and c.get('registered', True) and not c.get('extra')
                     and not any(plans._mentions_class(q['t']) for q in c.get('params', []))]
            free = [n for n in plans.CLASS_NAMES if n not in [c['name'] for c in specs[0]['classes']]]
            if bases and free:
                used = {q['n'] for q in bases[0].get('params', [])}
                pn = [n for n in ('radius', 'depth', 'label') if n not in used][0]
                specs[0]['classes'].append({
                    'name': free[0], 'kind': 'regular', 'registered': True, 'base': bases[0]['name'],
                    'params': [{'n': pn, 't': draw(st.sampled_from(['int', 'str', 'float'])), 'd': None}],
                    'extra': False})
                v = shared_base_variant(specs[0], 's1')
        if v is not None:
            if nspecs >= 2:
                specs[1] = v
            else:
                specs.append(v)
    nfn = draw(st.integers(1, 4))
    setup = [draw(mk_ops(specs, slot)) for slot in range(nfn)]
    if draw(st.integers(0, 2)) == 0:
        # a sibling of an existing function over a smaller set of the same classes
        # (load_function(Shape) next to load_function(Shape, Circle)), preferably
        # without a derived class
        proto = draw(st.sampled_from(setup))
        spec = _spec(specs, proto['spec'])
        names = [c['name'] for c in spec['classes']]
        derived = [c['name'] for c in spec['classes'] if c.get('base')]
        if len(names) > 1:
            drop = draw(st.sampled_from(derived * 3 + names))
            sib = dict(proto, slot=len(setup), only=sorted(n for n in names if n != drop))
            if draw(st.booleans()):
                setup.append(sib)
            else:
                sib['slot'] = proto['slot']
                proto['slot'] = len(setup)
                setup = [sib if m is proto else m for m in setup] + [proto]
                setup.sort(key=lambda m: m['slot'])
    if draw(st.integers(0, 3)) == 0:
        # two load functions with the very same supporting classes (same order) and different
        # result types, neither result class among the supporting ones: a base-typed document
        # type next to load_function(Derived, Base, ...)
        cand = []
        for sp in specs:
            for c in sp['classes']:
                if c['kind'] == 'regular' and c.get('base') and c.get('registered', True) \
                        and U.class_by_name(sp, c['base']).get('registered', True) \
                        and not any(o.get('base') == c['name'] for o in sp['classes']):
                    cand.append((sp, c))
        if cand:
            sp, d = draw(st.sampled_from(cand))
            support = sorted(c['name'] for c in sp['classes'] if c['name'] != d['name'])
            order = list(draw(st.permutations([c['name'] for c in sp['classes']])))
            ra = draw(st.sampled_from([['list', ['cls', d['base']]], ['dict', ['cls', d['base']]],
                                       ['cls', d['base']], ['opt', ['cls', d['base']]]]))
            pair = [{'op': 'mk', 'slot': len(setup), 'kind': 'load', 'spec': sp['uid'], 'order': order,
                     'only': support, 'root': ra},
                    {'op': 'mk', 'slot': len(setup) + 1, 'kind': 'load', 'spec': sp['uid'], 'order': order,
                     'only': support, 'root': ['cls', d['name']]}]
            if draw(st.booleans()):
                pair.reverse()
                pair[0]['slot'], pair[1]['slot'] = pair[1]['slot'], pair[0]['slot']
            setup.extend(pair)
    shared = {}
    for j in range(draw(st.integers(0, 2))):
        dmk = [m for m in setup if m['op'] == 'mk' and m['kind'] != 'load']
        if not dmk:
            break
        uid, val = draw(dump_values(specs, draw(st.sampled_from(dmk))))
        shared[j] = (uid, val)
        setup.append({'op': 'mkval', 'vslot': j, 'spec': uid, 'val': val})
    K = draw(st.sampled_from([1, 1, 2, 2, 2, 3, 3, 4]))
    max_ops = 8 if K == 1 else 4
    if tier == 'thorough' and K == 1:
        max_ops = 14
    threads = []
    next_slot = max(m['slot'] for m in setup if m['op'] == 'mk') + 1
    for t in range(K):
        n = draw(st.integers(1, max_ops))
        mine = [m for m in setup if m['op'] == 'mk']
        oplist = []
        for i in range(n):
            r = draw(st.integers(0, 19 if K == 1 else 11))
            if r == 0 and len(oplist) < n - 1:
                mk = draw(mk_ops(specs, next_slot))
                twins = [m for m in setup if m['op'] == 'mk'] + [
                    o for th in threads for o in th if o['op'] == 'mk']
                if twins and draw(st.booleans()):
                    # the very same function (same classes, same order) is created again,
                    # possibly while another thread is creating or using its twin
                    mk = dict(draw(st.sampled_from(twins)), slot=next_slot)
                next_slot += 1
                oplist.append(mk)
                mine = mine + [mk]
                continue
            if r == 1:
                oplist.append({'op': 'yaml_probe', 'which': draw(st.integers(0, 80))})
                continue
            if r == 2 and K == 1:
                oplist.append({'op': 'gc'})
                continue
            # prefer the shared functions, and bias towards re-using one slot
            if oplist and draw(st.booleans()):
                prev = [o for o in oplist if 'slot' in o]
                mk = next((m for m in mine if prev and m['slot'] == prev[-1]['slot']), None) \
                    or draw(st.sampled_from(mine))
            else:
                mk = draw(st.sampled_from(mine))
            again = [o for o in oplist if o.get('slot') == mk['slot'] and o['op'] == mk['kind']]
            if again and draw(st.integers(0, 4)) == 0:
                # the very same call once more (a configuration that is re-read, an object
                # that is saved again)
                op = {k: v for k, v in again[-1].items() if k not in ('cancel', 'cbf', 'iof', 'nest')}
            elif mk['kind'] == 'load':
                op = draw(load_ops(specs, mk))
            else:
                op = draw(dump_ops(specs, mk, shared))
            # same stem, different suffix: files that belong together (cfg.yaml / cfg.json)
            op['file'] = '{}.t{}o{}'.format(draw(st.sampled_from(['cfg', 'cfg', 'data'])), t, i)
            if draw(st.integers(0, 7)) == 0:
                # re-entrant use: inside one of its callbacks (an __init__, a hook) the user's
                # code calls a load or dump function itself - the same one or another one
                smk = [m for m in setup if m['op'] == 'mk']
                nmk = mk if (mk in smk and draw(st.booleans())) else draw(st.sampled_from(smk))
                nop = draw(load_ops(specs, nmk)) if nmk['kind'] == 'load' else draw(dump_ops(specs, nmk, {}))
                for k in ('cancel', 'cbf', 'iof'):
                    nop.pop(k, None)
                nop['file'] = 'cfg.nested{}'.format(t)
                op['nest'] = {str(draw(st.integers(0, 3))): nop}
            oplist.append(op)
        threads.append(oplist)
    knobs = {'scope': draw(st.sampled_from(['yatiml', 'core', 'core', 'all'])),
             'granularity': draw(st.sampled_from(
                 ['line'] * 6 + ['opcode'] * (3 if tier == 'thorough' else 1)))}
    twin_scenario = K > 1 and draw(st.integers(0, 11)) == 0
    if twin_scenario:
        # two threads create the very same function at the same time and use it at once
        proto = draw(mk_ops(specs, next_slot))
        for t in range(2):
            mk = dict(proto, slot=next_slot)
            next_slot += 1
            first = [mk]
            for i in range(draw(st.integers(1, 2))):
                op = draw(load_ops(specs, mk)) if mk['kind'] == 'load' else draw(dump_ops(specs, mk, shared))
                op['file'] = 'cfg.t{}x{}'.format(t, i)
                first.append(op)
            threads[t] = first + threads[t][:2]
    tape = draw(tapes(tier)) if K > 1 else {'entries': [], 'tail': None}
    # the caller keeps the exceptions of failed calls alive until the end of the run
    knobs['retain_exc'] = draw(st.booleans())
    # ... and (up to 64 of) the values it loaded, having changed them in place
    knobs['keep_results'] = draw(st.booleans())
    if K == 1 and draw(st.integers(0, 3)) == 0:
        # a long sequential history: the operation list is executed many times
        knobs['repeat'] = draw(st.sampled_from(
            [40, 60] if tier == 'quick' else [40, 40, 150, 150, 400, 400, 1500, 6000, 16000]))
    if K > 1:
        # write-point-directed schedules derived from a profiling run
        knobs['sweep'] = draw(st.sampled_from(
            [0, 0, 0, 6, 12] if tier == 'quick' else [0, 0, 12, 24, 48]))
        if twin_scenario:
            knobs['sweep'] = max(knobs['sweep'], 12)
        if draw(st.integers(0, 19 if tier == 'quick' else 5)) == 0:
            # single pre-emption at evenly spaced yield points of one thread
            knobs['stride'] = {'thread': draw(st.integers(0, 3)), 'other': draw(st.integers(0, 3)),
                               'runs': draw(st.sampled_from([20, 40] if tier == 'quick' else [60, 150, 400])),
                               'offset': draw(st.integers(0, 500))}
    return {'specs': specs, 'setup': setup, 'threads': threads, 'tape': tape, 'knobs': knobs}


def same_named_variant(spec, uid):
    """The same class names in the same order, another hierarchy (other class objects)."""
    import copy
    out = copy.deepcopy(spec)
    out['uid'] = uid
    earlier = []
    for c in out['classes']:
        if c['kind'] in ('regular', 'abstract'):
            if c.get('base'):
                c['base'] = None
                c.pop('redef', None)
            elif earlier:
                c['base'] = earlier[-1]
                used = {q['n'] for q in U.all_params(out, U.class_by_name(out, c['base']))}
                c['params'] = [q for q in c.get('params', []) if q['n'] not in used]
            earlier.append(c['name'])
        c.pop('sav', None)
    return out


def shared_base_variant(spec, uid):
    """Another application built on the same library base class: the base class OBJECT of
    `spec` is imported, and an own direct subclass gets the NAME of one of spec's."""
    import copy
    derived = [c for c in spec['classes'] if c['kind'] == 'regular' and c.get('base')
               and c.get('registered', True)]
    for d in derived:
        base = U.class_by_name(spec, d['base'])
        if base['kind'] in ('regular', 'abstract') and not base.get('base') \
                and base.get('registered', True) \
                and not any(plans._mentions_class(q['t']) for q in base.get('params', [])):
            own = copy.deepcopy(d)
            own.pop('sav', None)
            own.pop('redef', None)
            used = {q['n'] for q in U.all_params(spec, base)}
            own['params'] = [q for q in own.get('params', []) if q['n'] not in used
                             and not plans._mentions_class(q['t'])]
            own.pop('defaults_override', None)
            return {'uid': uid, 'import_from': spec['uid'], 'imported': [copy.deepcopy(base)],
                    'classes': [own]}
    return None


@st.composite
def churn_plans(draw, tier):
    """Functions come and go: create, use, drop, collect - over two class sets with the
    same names - again and again (state keyed by the identity of something that dies)."""
    sa = draw(plans.specs('s0', max_classes=4))
    sb = same_named_variant(sa, 's1')
    names = [c['name'] for c in sa['classes']]
    order = list(draw(st.permutations(names)))
    kind = draw(st.sampled_from(['load', 'load', 'load', 'dumps', 'dumps_json']))
    ops_ = []
    for slot, spec in ((50, sa), (51, sb)):
        mk = {'op': 'mk', 'slot': slot, 'kind': kind, 'spec': spec['uid'], 'order': order}
        if kind == 'load':
            roots = plans.root_types(spec)
            mk['root'] = roots[draw(st.integers(0, 40)) % len(roots)]
        ops_.append(mk)
        for i in range(draw(st.integers(1, 2))):
            op = draw(load_ops([sa, sb], mk)) if kind == 'load' else draw(dump_ops([sa, sb], mk, {}))
            op.pop('cancel', None)
            op['file'] = 'cfg.c{}x{}'.format(slot, i)
            ops_.append(op)
        ops_.append({'op': 'drop', 'slot': slot})
        ops_.append({'op': 'gc'})
    knobs = {'scope': 'core', 'granularity': 'line', 'churn': True, 'retain_exc': False,
             'repeat': draw(st.sampled_from([30, 60] if tier == 'quick' else [60, 200, 600]))}
    return {'specs': [sa, sb], 'setup': [], 'threads': [ops_], 'tape': {'entries': [], 'tail': None},
            'knobs': knobs}


@st.composite
def class_churn_plans(draw, tier):
    """Classes come and go: the same source is executed again and again (new class objects
    and typing aliases each time), used through a fresh function and dropped - state keyed
    by the identity of a class or of a typing alias that dies."""
    spec = draw(plans.specs('s0', max_classes=4))
    names = [c['name'] for c in spec['classes']]
    order = list(draw(st.permutations(names)))
    kind = draw(st.sampled_from(['load', 'load', 'load', 'dumps', 'dumps_json']))
    ops_ = [{'op': 'rebuild', 'spec': 's0'}]
    mk = {'op': 'mk', 'slot': 50, 'kind': kind, 'spec': 's0', 'order': order}
    if kind == 'load':
        roots = [r for r in plans.root_types(spec) if r != 'any' and r != ['dict', 'int']] \
            or plans.root_types(spec)
        mk['root'] = roots[draw(st.integers(0, 40)) % len(roots)]
    ops_.append(mk)
    for i in range(draw(st.integers(1, 2))):
        if kind == 'load':
            doc, _, _ = draw(plans.doc_texts(spec, mk['root'], p_corrupt=0.15))
            op = {'op': 'load', 'slot': 50, 'doc': doc, 'source': 'str'}
        else:
            op = draw(dump_ops([spec], mk, {}))
            op.pop('cancel', None)
        op['file'] = 'cfg.k{}'.format(i)
        ops_.append(op)
    ops_.append({'op': 'drop', 'slot': 50})
    ops_.append({'op': 'gc'})
    knobs = {'scope': 'core', 'granularity': 'line', 'churn': True, 'retain_exc': False,
             'repeat': draw(st.sampled_from([160, 240] if tier == 'quick' else [240, 600, 1500]))}
    return {'specs': [spec], 'setup': [], 'threads': [ops_], 'tape': {'entries': [], 'tail': None},
            'knobs': knobs}


@st.composite
def storm_plans(draw, tier):
    """One (probably failing) load repeated 16 000 times, nothing else in between:
    state that saturates only after thousands of failed calls (thorough tier only)."""
    spec = draw(plans.specs('s0', max_classes=4))
    mk = draw(mk_ops([spec], 0))
    mk['kind'] = 'load'
    mk['root'] = draw(st.sampled_from(plans.root_types(spec)))
    doc, _, _ = draw(plans.doc_texts(spec, mk['root'], p_corrupt=1.0, max_corrupt=2))
    op = {'op': 'load', 'slot': 0, 'doc': doc, 'source': 'str', 'file': 'cfg.storm'}
    return {'specs': [spec], 'setup': [mk], 'threads': [[op]], 'tape': {'entries': [], 'tail': None},
            'knobs': {'scope': 'core', 'granularity': 'line', 'repeat': 16000, 'retain_exc': False}}


def plans_strategy(tier):
    if tier == 'thorough':
        # (storm plans cost about half a minute each)
        return st.integers(0, 1499).flatmap(
            lambda r: storm_plans(tier) if r == 0 else
            (churn_plans(tier) if r % 15 == 1 else
             (class_churn_plans(tier) if r % 15 == 2 else world_plans(tier))))
    return st.one_of(*([world_plans(tier)] * 14 + [churn_plans(tier), class_churn_plans(tier)]))


# ---------------------------------------------------------------- C06 (history clause)

@st.composite
def dumphist_plans(draw, tier):
    """Worlds made of dump functions and shared objects that are dumped repeatedly."""
    nspecs = draw(st.sampled_from([1, 1, 2]))
    specs = [draw(plans.specs('s{}'.format(i), max_classes=4)) for i in range(nspecs)]
    setup = []
    kinds = ['dumps', 'dumps_json'] + draw(st.sampled_from(
        [[], ['dump'], ['dump_json'], ['dump', 'dump_json'], ['dumps']]))
    for slot, kind in enumerate(kinds):
        spec = specs[0] if slot < 2 or nspecs == 1 else draw(st.sampled_from(specs))
        names = [c['name'] for c in spec['classes']]
        mk = {'op': 'mk', 'slot': slot, 'kind': kind, 'spec': spec['uid'],
              'order': list(draw(st.permutations(names)))}
        if len(names) > 1 and draw(st.integers(0, 3)) == 0:
            # a dump function that knows only some of the classes (e.g. a derived
            # class without its base)
            k = draw(st.integers(1, len(names) - 1))
            mk['only'] = sorted(draw(st.permutations(names))[:k])
        setup.append(mk)
    mks = list(setup)
    shared = {}
    for j in range(draw(st.integers(1, 4))):
        uid, val = draw(dump_values(specs, draw(st.sampled_from(mks))))
        shared[j] = (uid, val)
        setup.append({'op': 'mkval', 'vslot': j, 'spec': uid, 'val': val})
    K = draw(st.sampled_from([1, 1, 2, 2, 3]))
    threads = []
    for t in range(K):
        oplist = []
        for i in range(draw(st.integers(2, 8 if K == 1 else 5))):
            if draw(st.integers(0, 9)) == 0:
                # another dump function comes into being between two dumps
                spec = draw(st.sampled_from(specs))
                names = [c['name'] for c in spec['classes']]
                oplist.append({'op': 'mk', 'slot': 100 + 10 * t + i,
                               'kind': draw(st.sampled_from(['dumps', 'dumps_json', 'dump'])),
                               'spec': spec['uid'], 'order': list(draw(st.permutations(names)))})
                continue
            mk = draw(st.sampled_from(mks))
            op = {'op': mk['kind'], 'slot': mk['slot'], 'shared': draw(st.sampled_from(sorted(shared)))}
            if mk['kind'] in ('dumps_json', 'dump_json'):
                op['indent'] = draw(st.sampled_from([None, None, 0, 2, 4]))
                op['ensure_ascii'] = draw(st.booleans())
            if mk['kind'] in ('dump', 'dump_json'):
                op['sink'] = draw(st.sampled_from(['stringio', 'duck', 'duck_flush', 'path', 'strpath']))
                if op['sink'] in ('path', 'strpath'):
                    op['pre'] = draw(st.booleans())
                    op['chunks'] = draw(st.sampled_from([None, [1], [5]]))
            op = draw(fault_fields(op))
            # same stem, different suffix: files that belong together (cfg.yaml / cfg.json)
            op['file'] = '{}.t{}o{}'.format(draw(st.sampled_from(['cfg', 'cfg', 'data'])), t, i)
            oplist.append(op)
        threads.append(oplist)
    knobs = {'scope': draw(st.sampled_from(['yatiml', 'core', 'core', 'all'])),
             'granularity': draw(st.sampled_from(['line'] * 6 + ['opcode']))}
    tape = draw(tapes(tier)) if K > 1 else {'entries': [], 'tail': None}
    if K > 1:
        knobs['sweep'] = draw(st.sampled_from([0, 0, 6, 12]))
    return {'specs': specs, 'setup': setup, 'threads': threads, 'tape': tape, 'knobs': knobs}
