"""Class-model universe: specs -> generated source -> real classes; values; documents.

A *spec* is plain JSON (it travels inside plans and replay files):

  {"uid": "s0", "classes": [<class spec>, ...]}

class spec:
  {"name": "A",
   "kind": "regular" | "abstract" | "enum" | "ustr" | "ystr",
   "base": null | "<name of an earlier regular/abstract class>",
   "registered": true|false,      # passed to load_function/dump*_function?
   "params": [{"n": name, "t": texpr, "d": null | {"v": literal}}],   # own params
   "extra": bool,                 # takes _yatiml_extra
   "sav": null | "dashes" | {"from": alias, "to": param} | "lower" | "raise"
   "swe": null | "dashes" | "defaults" | {"from": param, "to": alias} | {"mark": scalar}
   "rec": bool,                   # custom _yatiml_recognize
   "attrs": bool,                 # _yatiml_attributes
   "hidden": null | param,        # that parameter is stored as self._<param>
   "members": [...],              # enum only
   "validate": null | "alpha"}    # string-likes: constructor raises ValueError

type expression (texpr):
  "int" | "str" | "float" | "bool" | "date" | "path" | "any" | "untyped" (no annotation)
  ["opt", T] | ["list", T] | ["dict", T] | ["union", T1, T2, ...] | ["cls", name]
  ["dictk", name, T]    # Dict[<string-like class>, T]

value (tagged JSON):
  {"k":"int","v":3} {"k":"float","v":"1.5"} {"k":"str","v":".."} {"k":"bool","v":true}
  {"k":"none"} {"k":"date","v":"2001-02-03"} {"k":"path","v":"a/b"}
  {"k":"list","v":[..]} {"k":"dict","v":[[key(str | tagged value), val], ...]} {"k":"odict","v":[...]}
  {"k":"tuple","v":[..]}  # (as a dict key: YAML can write it, a load cannot build it)
  {"k":"obj","c":name,"a":[[param, val], ...],"x":[[key, val], ...]}
  {"k":"enum","c":name,"m":member} {"k":"ustr","c":name,"v":str}
  {"k":"ref","i":n}       # the n-th "obj"/"list"/"dict" built so far (shared sub-object)
  {"k":"alien","c":name}  # instance of an unregistered helper class
"""
import datetime
import linecache
import math
import pathlib
import re
import sys
from collections import OrderedDict

from sim import seam

GEN_PREFIX = '<simgen:'

_PRELUDE = '''\
import abc
import dataclasses
import enum
from collections import OrderedDict, UserString
from datetime import date
from pathlib import Path
from typing import Any, Dict, List, Optional, Union

import yaml
import yatiml

'''


def ann_src(t):
    if isinstance(t, str):
        return {'int': 'int', 'str': 'str', 'float': 'float', 'bool': 'bool',
                'date': 'date', 'path': 'Path', 'any': 'Any', 'untyped': 'Any'}[t]
    k = t[0]
    if k == 'opt':
        return 'Optional[{}]'.format(ann_src(t[1]))
    if k == 'list':
        return 'List[{}]'.format(ann_src(t[1]))
    if k == 'dict':
        return 'Dict[str, {}]'.format(ann_src(t[1]))
    if k == 'dictk':
        return 'Dict[{}, {}]'.format(t[1], ann_src(t[2]))
    if k == 'union':
        return 'Union[{}]'.format(', '.join(ann_src(x) for x in t[1:]))
    if k == 'cls':
        return t[1]
    raise ValueError(t)


def class_by_name(spec, name):
    for c in spec['classes']:
        if c['name'] == name:
            return c
    # classes of another spec that this one builds on (a shared "library" base class)
    for c in spec.get('imported') or ():
        if c['name'] == name:
            return c
    raise KeyError(name)


def all_params(spec, cspec):
    """Parameters of the generated __init__, parents' first, required first."""
    ps = []
    if cspec.get('base'):
        redef = cspec.get('redef') or {}
        for p in all_params(spec, class_by_name(spec, cspec['base'])):
            if p['n'] in redef and p.get('d') is not None:
                # the subclass gives an inherited parameter another default
                p = dict(p, d={'v': redef[p['n']]})
            ps.append(p)
    ps.extend(cspec.get('params', []))
    req = [p for p in ps if p.get('d') is None]
    opt = [p for p in ps if p.get('d') is not None]
    return req + opt


def has_extra(spec, cspec):
    return bool(cspec.get('extra'))


def _lit(v):
    return repr(v)


def class_source(spec, c):
    uid = '{}.{}'.format(spec['uid'], c['name'])
    kind = c['kind']
    L = []
    if kind == 'enum':
        mix = c.get('mix')
        L.append('class {}({}):'.format(c['name'], {'int': 'enum.IntEnum', 'str': 'str, enum.Enum'}.get(
            mix, 'enum.Enum')))
        for i, m in enumerate(c['members']):
            # (members of mixin enums compare and hash like their values)
            L.append('    {} = {}'.format(m, repr('v{}'.format(i + 1)) if mix == 'str' else i + 1))
        if c.get('sav') == 'lower':
            L.append('    @classmethod')
            L.append('    def _yatiml_savorize(cls, node):')
            L.append('        _sim.cb("savorize", {!r})'.format(uid))
            L.append('        if node.is_scalar(str):')
            L.append('            node.set_value(node.get_value().lower())')
        if c.get('swe') == 'upper':
            L.append('    @classmethod')
            L.append('    def _yatiml_sweeten(cls, node):')
            L.append('        _sim.cb("sweeten", {!r})'.format(uid))
            L.append('        node.set_value(node.get_value().upper())')
        L.append('')
        return L
    if kind in ('ustr', 'ystr'):
        base = 'UserString' if kind == 'ustr' else 'yatiml.String'
        L.append('class {}({}):'.format(c['name'], base))
        L.append('    def __init__(self, seq: str) -> None:')
        L.append('        _sim.cb("strlike_init", {!r})'.format(uid))
        if c.get('validate') == 'alpha':
            L.append('        if not str(seq).isalpha():')
            L.append('            raise ValueError("not alphabetic: {}".format(seq))')
        if kind == 'ustr':
            L.append('        super().__init__(seq)')
        else:
            L.append('        self.s = seq')
            L.append('    def __str__(self) -> str:')
            L.append('        return self.s')
            L.append('    def __eq__(self, other):')
            L.append('        return type(other) is type(self) and other.s == self.s')
            L.append('    def __hash__(self):')
            L.append('        return hash(self.s)')
        if c.get('swe') == 'upper':
            L.append('    @classmethod')
            L.append('    def _yatiml_sweeten(cls, node):')
            L.append('        _sim.cb("sweeten", {!r})'.format(uid))
            L.append('        node.set_value(node.get_value().upper())')
        L.append('')
        return L

    # regular / abstract
    bases = []
    if c.get('base'):
        bases.append(c['base'])
    if kind == 'abstract':
        bases.append('abc.ABC')
    L.append('class {}{}:'.format(
        c['name'], '({})'.format(', '.join(bases)) if bases else ''))
    ps = all_params(spec, c)
    req = [p for p in ps if p.get('d') is None]
    opt = [p for p in ps if p.get('d') is not None]
    sig = ['self']
    for p in req:
        # ('untyped': a parameter without annotation - yatiml treats it like Any)
        sig.append(p['n'] if p['t'] == 'untyped' else '{}: {}'.format(p['n'], ann_src(p['t'])))
    if c.get('extra'):
        sig.append('_yatiml_extra: OrderedDict')
    for p in opt:
        sig.append('{}: {} = {}'.format(p['n'], ann_src(p['t']), _lit(p['d']['v'])))
    if c.get('dc') and not c.get('base') and not c.get('extra') and kind == 'regular':
        # a dataclass: __init__ is generated, the seam call sits in __post_init__
        L.insert(len(L) - 1, '@dataclasses.dataclass')
        for p in req:
            L.append('    {}: {}'.format(p['n'], ann_src(p['t'])))
        for p in opt:
            L.append('    {}: {} = {}'.format(p['n'], ann_src(p['t']), _lit(p['d']['v'])))
        L.append('    def __post_init__(self) -> None:')
        L.append('        _sim.cb("init", {!r})'.format(uid))
        return _class_tail(L, spec, c, uid, ps, req)
    L.append('    def __init__({}) -> None:'.format(', '.join(sig)))
    L.append('        _sim.cb("init", {!r})'.format(uid))
    if c.get('base'):
        pps = all_params(spec, class_by_name(spec, c['base']))
        pc = class_by_name(spec, c['base'])
        kw = ['{0}={0}'.format(p['n']) for p in pps]
        if pc.get('extra'):
            kw.append('_yatiml_extra=OrderedDict()')
        L.append('        super().__init__({})'.format(', '.join(kw)))
    for p in c.get('params', []):
        # ('hidden': the value is kept under a private name; without _yatiml_attributes such
        # an object cannot be dumped - the dump fails with AttributeError)
        L.append('        self.{1}{0} = {0}'.format(p['n'], '_' if c.get('hidden') == p['n'] else ''))
    if c.get('extra'):
        L.append('        self._yatiml_extra = _yatiml_extra')
    if not c.get('params') and not c.get('extra') and not c.get('base'):
        L.append('        pass')
    return _class_tail(L, spec, c, uid, ps, req)


def _class_tail(L, spec, c, uid, ps, req):
    """_yatiml_defaults and the hooks of a regular/abstract/dataclass class."""
    if c.get('defaults_override'):
        L.append('    _yatiml_defaults = {}'.format(_lit(c['defaults_override'])))
    sav = c.get('sav')
    if sav:
        L.append('    @classmethod')
        L.append('    def _yatiml_savorize(cls, node):')
        L.append('        _sim.cb("savorize", {!r})'.format(uid))
        if sav == 'dashes':
            L.append('        if node.is_mapping():')
            L.append('            node.dashes_to_unders_in_keys()')
        elif sav == 'raise':
            L.append('        if node.is_mapping() and node.has_attribute("poison"):')
            L.append('            raise yatiml.SeasoningError("poisoned")')
        elif isinstance(sav, dict) and 'struct' in sav:
            # the structural helpers, used as documented: an index written as a mapping
            # of mappings / a list written with a key attribute
            L.append('        if node.is_mapping() and node.has_attribute({!r}):'.format(sav['attr']))
            if sav['struct'] == 'index':
                L.append('            node.index_attribute_to_map({!r}, "id")'.format(sav['attr']))
            else:
                L.append('            node.seq_attribute_to_map({!r}, "id")'.format(sav['attr']))
        elif isinstance(sav, dict) and 'fill' in sav:
            # make omitted attributes explicit (the classic use of set_attribute)
            L.append('        if node.is_mapping():')
            if not sav['fill']:
                L.append('            pass')
            for name, value in sav['fill']:
                L.append('            if not node.has_attribute({!r}):'.format(name))
                L.append('                node.set_attribute({!r}, {})'.format(name, _lit(value)))
        elif isinstance(sav, dict) and 'rebuild' in sav:
            # the documented idiom for non-scalar values: build a yaml node by hand
            # and hand it to set_attribute(); such nodes carry no marks
            L.append('        if node.is_mapping() and node.has_attribute({!r}):'.format(sav['rebuild']))
            L.append('            old = node.get_attribute({!r}).yaml_node'.format(sav['rebuild']))
            L.append('            if isinstance(old, yaml.ScalarNode):')
            L.append('                new = yaml.ScalarNode(old.tag, old.value)')
            L.append('            elif isinstance(old, yaml.MappingNode):')
            L.append('                new = yaml.MappingNode(old.tag, list(old.value))')
            L.append('            else:')
            L.append('                new = yaml.SequenceNode(old.tag, list(old.value))')
            L.append('            node.set_attribute({!r}, new)'.format(sav['rebuild']))
        else:
            L.append('        if node.is_mapping() and node.has_attribute({!r}):'.format(sav['from']))
            L.append('            node.rename_attribute({!r}, {!r})'.format(sav['from'], sav['to']))
    swe = c.get('swe')
    if swe:
        L.append('    @classmethod')
        L.append('    def _yatiml_sweeten(cls, node):')
        L.append('        _sim.cb("sweeten", {!r})'.format(uid))
        if swe == 'dashes':
            L.append('        node.unders_to_dashes_in_keys()')
        elif swe == 'defaults':
            L.append('        node.remove_attributes_with_default_values(cls)')
        elif isinstance(swe, dict) and 'mark' in swe:
            # a format marker / computed flag written next to the attributes
            L.append('        node.set_attribute("marker", {})'.format(_lit(swe['mark'])))
        else:
            L.append('        node.rename_attribute({!r}, {!r})'.format(swe['from'], swe['to']))
    if c.get('rec'):
        L.append('    @classmethod')
        L.append('    def _yatiml_recognize(cls, node):')
        L.append('        _sim.cb("recognize", {!r})'.format(uid))
        L.append('        node.require_mapping()')
        for p in req[:1]:
            L.append('        node.require_attribute({!r})'.format(p['n']))
    if c.get('attrs'):
        L.append('    def _yatiml_attributes(self):')
        L.append('        _sim.cb("attributes", {!r})'.format(uid))
        items = ', '.join('({0!r}, self.{1}{0})'.format(p['n'], '_' if c.get('hidden') == p['n'] else '')
                          for p in reversed(ps))
        L.append('        return OrderedDict([{}])'.format(items))
    L.append('')
    return L


def spec_source(spec):
    lines = _PRELUDE.split('\n')
    for c in spec['classes']:
        lines.extend(class_source(spec, c))
    lines.append('class Alien:')
    lines.append('    """Never registered with any function."""')
    lines.append('    def __init__(self) -> None:')
    lines.append('        self.z = 1')
    lines.append('')
    return '\n'.join(lines) + '\n'


class Namespace:
    """The classes built from one spec."""

    def __init__(self, spec, parent=None):
        self.spec = spec
        self.uid = spec['uid']
        self.source = spec_source(spec)
        self.filename = '{}{}>'.format(GEN_PREFIX, self.uid)
        code = compile(self.source, self.filename, 'exec')
        linecache.cache[self.filename] = (
            len(self.source), None, self.source.splitlines(True), self.filename)
        self.globals = {'_sim': seam, '__name__': 'simgen_' + self.uid}
        # a spec may build on class OBJECTS of another one (spec['imported']):
        # they are in scope while this spec's classes are defined
        self.imported = OrderedDict()
        for c in spec.get('imported') or ():
            self.imported[c['name']] = parent.classes[c['name']]
            self.globals[c['name']] = parent.classes[c['name']]
        exec(code, self.globals)
        self.classes = OrderedDict(self.imported)
        self.classes.update(
            (c['name'], self.globals[c['name']]) for c in spec['classes'])
        self.alien = self.globals['Alien']
        for c in spec['classes']:
            cls = self.classes[c['name']]
            cls._sim_uid = '{}.{}'.format(self.uid, c['name'])
        self.alien._sim_uid = '{}.Alien'.format(self.uid)

    def registered(self, order=None):
        """Registered classes, in spec order or the given name order."""
        names = [c['name'] for c in (list(self.spec.get('imported') or ()) + self.spec['classes'])
                 if c.get('registered', True)]
        if order is not None:
            names = [n for n in order if n in names] + [n for n in names if n not in order]
        return [self.classes[n] for n in names]

    def type_of(self, t):
        """texpr -> real typing object."""
        from typing import Any, Dict, List, Optional, Union
        if isinstance(t, str):
            return {'int': int, 'str': str, 'float': float, 'bool': bool,
                    'date': datetime.date, 'path': pathlib.Path, 'any': Any, 'untyped': Any}[t]
        k = t[0]
        if k == 'opt':
            return Optional[self.type_of(t[1])]
        if k == 'list':
            return List[self.type_of(t[1])]
        if k == 'dict':
            return Dict[str, self.type_of(t[1])]
        if k == 'dictk':
            return Dict[self.classes[t[1]], self.type_of(t[2])]
        if k == 'union':
            return Union[tuple(self.type_of(x) for x in t[1:])]
        if k == 'cls':
            return self.classes[t[1]]
        raise ValueError(t)


# ---------------------------------------------------------------- values

def parse_float(s):
    return float(s)


def build_value(ns, val, built=None):
    """Tagged value -> Python object (constructing generated classes directly).

    Runs outside any OpContext, so the callback seam stays silent.
    """
    if built is None:
        built = []
    k = val['k']
    if k == 'int':
        return int(val['v'])
    if k == 'float':
        return parse_float(val['v'])
    if k == 'str':
        return val['v']
    if k == 'bool':
        return bool(val['v'])
    if k == 'none':
        return None
    if k == 'date':
        return datetime.date.fromisoformat(val['v'])
    if k == 'datetime':
        return datetime.datetime.fromisoformat(val['v'])
    if k == 'path':
        return pathlib.Path(val['v'])
    if k == 'list':
        out = []
        built.append(out)
        out.extend(build_value(ns, x, built) for x in val['v'])
        return out
    if k == 'tuple':
        return tuple(build_value(ns, x, built) for x in val['v'])
    if k in ('dict', 'odict'):
        out = OrderedDict() if k == 'odict' else {}
        built.append(out)
        for key, v in val['v']:
            kk = build_value(ns, key, built) if isinstance(key, dict) else key
            out[kk] = build_value(ns, v, built)
        return out
    if k == 'obj':
        cls = ns.classes[val['c']]
        kwargs = OrderedDict()
        for n, v in val['a']:
            kwargs[n] = build_value(ns, v, built)
        cspec = class_by_name(ns.spec, val['c'])
        if cspec.get('extra'):
            kwargs['_yatiml_extra'] = OrderedDict(
                (key, build_value(ns, v, built)) for key, v in val.get('x', []))
        obj = cls(**kwargs)
        built.append(obj)
        return obj
    if k == 'enum':
        return ns.classes[val['c']][val['m']]
    if k == 'ustr':
        return ns.classes[val['c']](val['v'])
    if k == 'ref':
        if not built:
            return None
        return built[val['i'] % len(built)]
    if k == 'alien':
        return ns.alien()
    raise ValueError(k)


# ---------------------------------------------------------------- documents
#
# A document tree is plain JSON too:
#   {"t":"s","v":text,"q":bool,"tag":null|str,"anchor":null|str}
#   {"t":"seq","v":[node...],"tag":..,"anchor":..}
#   {"t":"map","v":[[keynode, valnode]...],"tag":..,"anchor":..}
#   {"t":"alias","v":name}

def S(text, q=False, tag=None):
    return {'t': 's', 'v': text, 'q': q, 'tag': tag}


def float_text(f):
    if isinstance(f, str):
        f = float(f)
    if math.isnan(f):
        return '.nan'
    if math.isinf(f):
        return '.inf' if f > 0 else '-.inf'
    r = repr(f)
    if 'e' in r and '.' not in r:
        # 1e+20 is fine for the YAML 1.2 float regex used by yatiml
        return r
    return r


def value_to_tree(spec, val, built=None):
    """The natural document for a value (what a user would write)."""
    if built is None:
        built = []
    k = val['k']
    if k == 'int':
        return S(str(int(val['v'])))
    if k == 'float':
        # 'sp': a spelling that is a float only under yatiml's YAML 1.2 patch (1e5)
        return S(val.get('sp') or float_text(val['v']))
    if k == 'str':
        # 'plain': written unquoted although YAML 1.1 reads it as bool/float (yes, 1_000.5)
        return S(val['v'], q=not val.get('plain'))
    if k == 'bool':
        return S('true' if val['v'] else 'false')
    if k == 'none':
        return S('null')
    if k in ('date', 'datetime'):
        return S(val['v'])
    if k == 'path':
        return S(val['v'], q=True)
    if k == 'list':
        node = {'t': 'seq', 'v': [], 'tag': None}
        built.append(node)
        node['v'] = [value_to_tree(spec, x, built) for x in val['v']]
        return node
    if k == 'tuple':
        return {'t': 'seq', 'v': [value_to_tree(spec, x, built) for x in val['v']], 'tag': None}
    if k in ('dict', 'odict'):
        node = {'t': 'map', 'v': [], 'tag': None}
        built.append(node)
        for key, v in val['v']:
            kn = value_to_tree(spec, key, built) if isinstance(key, dict) else S(key, q=True)
            node['v'].append([kn, value_to_tree(spec, v, built)])
        return node
    if k == 'obj':
        node = {'t': 'map', 'v': [], 'tag': None}
        for n, v in val['a']:
            node['v'].append([S(n, q=False), value_to_tree(spec, v, built)])
        for key, v in val.get('x', []):
            node['v'].append([S(key, q=True), value_to_tree(spec, v, built)])
        built.append(node)
        return node
    if k == 'enum':
        return S(val['m'])
    if k == 'ustr':
        return S(val['v'], q=True)
    if k == 'ref':
        if not built:
            return S('null')
        import copy
        return copy.deepcopy(built[val['i'] % len(built)])
    if k == 'alien':
        return {'t': 'map', 'v': [[S('z'), S('1')]], 'tag': None}
    raise ValueError(k)


_PLAIN_OK = re.compile(r'^[A-Za-z_][A-Za-z0-9_]*( [A-Za-z0-9_]+)*$')
_RESERVED = {
    'null', 'Null', 'NULL', 'true', 'True', 'TRUE', 'false', 'False', 'FALSE',
    'yes', 'Yes', 'YES', 'no', 'No', 'NO', 'on', 'On', 'ON', 'off', 'Off', 'OFF',
    'y', 'Y', 'n', 'N'}


def _printable(ch):
    o = ord(ch)
    return (ch in '\t' or 0x20 <= o <= 0x7e or o == 0x85 or 0xa0 <= o <= 0xd7ff
            or 0xe000 <= o <= 0xfffd and o != 0xfeff or 0x10000 <= o <= 0x10ffff)


def dq(text):
    out = ['"']
    for ch in text:
        if ch == '"':
            out.append('\\"')
        elif ch == '\\':
            out.append('\\\\')
        elif ch == '\n':
            out.append('\\n')
        elif ch == '\t':
            out.append('\\t')
        elif ch == '\r':
            out.append('\\r')
        elif ch in '\x85\u2028\u2029':
            out.append('\\u{:04x}'.format(ord(ch)))
        elif _printable(ch):
            out.append(ch)
        elif ord(ch) <= 0xffff:
            out.append('\\u{:04x}'.format(ord(ch)))
        else:
            out.append('\\U{:08x}'.format(ord(ch)))
    out.append('"')
    return ''.join(out)


def scalar_text(node):
    text = node['v']
    if node.get('q'):
        if _PLAIN_OK.match(text) and text not in _RESERVED and not node.get('force_q'):
            return text
        return dq(text)
    return text


def _props(node):
    p = ''
    if node.get('anchor'):
        p += '&{} '.format(node['anchor'])
    if node.get('tag'):
        p += '{} '.format(node['tag'])
    return p


def write_flow(node):
    t = node['t']
    if t == 'alias':
        return '*{}'.format(node['v'])
    if t == 's':
        return _props(node) + scalar_text(node)
    if t == 'seq':
        return _props(node) + '[' + ', '.join(write_flow(x) for x in node['v']) + ']'
    if t == 'map':
        return _props(node) + '{' + ', '.join(
            '{}: {}'.format(write_flow(k), write_flow(v)) for k, v in node['v']) + '}'
    raise ValueError(t)


def write_block(node, indent=0, nl='\n'):
    """Block style; falls back to flow for empty collections and keys."""
    pad = ' ' * indent
    t = node['t']
    if t in ('s', 'alias'):
        return pad + write_flow(node) + nl
    if t == 'seq':
        if not node['v']:
            return pad + _props(node) + '[]' + nl
        out = ''
        if _props(node):
            out += pad + _props(node).rstrip() + nl
        for x in node['v']:
            if x['t'] in ('s', 'alias') or not x['v']:
                out += pad + '- ' + write_flow(x) + nl
            else:
                sub = write_block(x, indent + 2, nl)
                if _props(x):
                    out += pad + '-' + nl + sub
                else:
                    out += pad + '- ' + sub[indent + 2:]
        return out
    if t == 'map':
        if not node['v']:
            return pad + _props(node) + '{}' + nl
        out = ''
        if _props(node):
            out += pad + _props(node).rstrip() + nl
        for k, v in node['v']:
            ktxt = write_flow(k)
            if v['t'] in ('s', 'alias') or not v['v']:
                out += pad + ktxt + ': ' + write_flow(v) + nl
            else:
                hdr = pad + ktxt + ':'
                if _props(v):
                    hdr += ' ' + _props(v).rstrip()
                    v = dict(v, tag=None, anchor=None)
                out += hdr + nl + write_block(v, indent + 2, nl)
        return out
    raise ValueError(t)


def write_doc(tree, style='block', nl='\n'):
    if style == 'flow':
        return write_flow(tree) + nl
    return write_block(tree, 0, nl)
