"""Hypothesis strategies that draw fully explicit plans (DESIGN.md §3.1).

Hypothesis is used only here, as plan generator and shrinker.  Everything a
strategy returns is plain JSON; executing a plan never consults Hypothesis.
"""
import copy

from hypothesis import strategies as st

from sim import universe as U

CLASS_NAMES = ['A', 'B', 'C', 'D', 'E', 'F']
PARAM_NAMES = ['x', 'y', 'name', 'size', 'items', 'opts', 'pos', 'first_name',
               'max_n', 'kind', 'ref']
ENUM_MEMBERS = ['red', 'green', 'blue', 'true', 'yes', 'on']
SCALAR_T = ['int', 'str', 'float', 'bool', 'date', 'path', 'any']
PARAM_ONLY_T = ['untyped']     # a required parameter without annotation

TRICKY_STR = ['', 'a', 'abc', 'true', 'yes', 'null', '1', '1.5', '1e5', '~',
              'héllo', 'x y', ' lead', 'a: b', 'x #y', '- a', '[z', '{z',
              'line1\nline2', 'tab\tx', '\u00e9\u00e8', '\u4e2d\u6587',
              '\U0001f600', 'q"q', "q'q", 'back\\slash', '2001-02-03', '0x1F',
              '*star', '&amp', '!bang', '%pct', '@at', '`tick', '\u2028ls',
              '\x85nel', '\ufeffbom', 'C:\\dir', 'a' * 70,
              # scalars longer than one 4096/8192 read block, and than the emitter's line width
              'x' * 5000, '\u00e9' * 4100, 'word ' * 1700]


YAML11_STR_WORDS = ['yes', 'no', 'on', 'off', 'Yes', 'No', 'ON', 'Off', 'YES', '1_000.5', '1:30.5',
                    '6:0.0', '1_0.0e+1']


def _scalar_default(t):
    if t == 'int':
        return st.sampled_from([0, 3, -1])
    if t == 'str':
        return st.sampled_from(['dflt', '', 'x'])
    if t == 'float':
        return st.sampled_from([1.5, 0.0, 1.0])
    if t == 'bool':
        return st.booleans()
    return None


@st.composite
def texprs(draw, earlier, depth=2):
    """A type expression; `earlier` = class specs defined before this one."""
    choices = ['scalar'] * 5
    if depth > 0:
        choices += ['opt', 'list', 'dict', 'union']
    if earlier:
        choices += ['cls'] * 4
    k = draw(st.sampled_from(choices))
    if k == 'scalar':
        return draw(st.sampled_from(SCALAR_T))
    if k == 'cls':
        return ['cls', draw(st.sampled_from([c['name'] for c in earlier]))]
    if k == 'opt':
        inner = draw(texprs(earlier, depth - 1))
        if inner == 'any' or (isinstance(inner, list) and inner[0] in ('opt', 'union')):
            inner = 'int'
        return ['opt', inner]
    if k == 'list':
        return ['list', draw(texprs(earlier, depth - 1))]
    if k == 'dict':
        strlikes = [c['name'] for c in earlier if c['kind'] in ('ustr', 'ystr')]
        if strlikes and draw(st.integers(0, 2)) == 0:
            return ['dictk', draw(st.sampled_from(strlikes)), draw(texprs(earlier, depth - 1))]
        return ['dict', draw(texprs(earlier, depth - 1))]
    if k == 'union':
        overl = [c for c in earlier if c['kind'] in ('enum', 'ustr', 'ystr')]
        if overl and draw(st.integers(0, 2)) == 0:
            # a scalar first and a class that matches the same nodes later
            # (Union[str, StringLike], Union[bool, EnumWithTrue]): ambiguous documents
            c = draw(st.sampled_from(overl))
            first = 'bool' if c['kind'] == 'enum' and draw(st.booleans()) else 'str'
            return ['union', first, ['cls', c['name']]]
        n = draw(st.integers(2, 3))
        pool = ['int', 'str', 'float', 'bool'] + [['cls', c['name']] for c in earlier]
        ms = []
        for _ in range(n):
            m = draw(st.sampled_from(pool))
            if m not in ms:
                ms.append(m)
        if len(ms) < 2:
            ms = ['int', 'str']
        return ['union'] + ms
    raise AssertionError(k)


@st.composite
def class_specs(draw, name, earlier, allow_hooks=True):
    kind = draw(st.sampled_from(
        ['regular'] * 6 + ['enum', 'ustr', 'ystr', 'abstract']))
    c = {'name': name, 'kind': kind, 'registered': draw(st.sampled_from([True] * 9 + [False]))}
    if kind == 'enum':
        n = draw(st.integers(1, 3))
        ms = draw(st.permutations(ENUM_MEMBERS))[:n]
        c['members'] = list(ms)
        c['mix'] = draw(st.sampled_from([None, None, None, 'int', 'str']))
        if allow_hooks and draw(st.integers(0, 5)) == 0:
            c['sav'] = 'lower'
        if allow_hooks and draw(st.integers(0, 3)) == 0:
            c['swe'] = 'upper'
        return c
    if kind in ('ustr', 'ystr'):
        c['validate'] = draw(st.sampled_from([None, None, 'alpha']))
        if allow_hooks and draw(st.integers(0, 7)) == 0:
            c['swe'] = 'upper'
        return c
    bases = [e for e in earlier if e['kind'] in ('regular', 'abstract')]
    c['base'] = None
    if bases and draw(st.integers(0, 2)) == 0:
        c['base'] = draw(st.sampled_from([b['name'] for b in bases]))
    used = set()
    b = c['base']
    spec_stub = {'classes': earlier}
    if b:
        used = {p['n'] for p in U.all_params(spec_stub, U.class_by_name(spec_stub, b))}
    if b:
        inherited = [q for q in U.all_params(spec_stub, U.class_by_name(spec_stub, b))
                     if q.get('d') is not None and isinstance(q['t'], str)
                     and _scalar_default(q['t']) is not None]
        if inherited and draw(st.integers(0, 2)) == 0:
            q = draw(st.sampled_from(inherited))
            c['redef'] = {q['n']: draw(_scalar_default(q['t']))}
    nparams = draw(st.integers(0, 4))
    names = [n for n in draw(st.permutations(PARAM_NAMES)) if n not in used][:nparams]
    params = []
    for n in names:
        t = draw(texprs(earlier))
        if draw(st.integers(0, 11)) == 0:
            t = 'untyped'
        d = None
        if draw(st.integers(0, 2)) == 0:
            if isinstance(t, str) and _scalar_default(t) is not None:
                d = {'v': draw(_scalar_default(t))}
            elif isinstance(t, list) and t[0] == 'opt':
                d = {'v': None}
        params.append({'n': n, 't': t, 'd': d})
    c['params'] = params
    c['extra'] = draw(st.integers(0, 5)) == 0
    if kind == 'regular' and not c['base'] and not c['extra'] and draw(st.integers(0, 4)) == 0:
        c['dc'] = True      # written as a @dataclass
    dparams = [q for q in params if q['d'] is not None and isinstance(q['t'], str)]
    if dparams and draw(st.integers(0, 2)) == 0:
        # the documented way to override a default for dumping
        q = draw(st.sampled_from(dparams))
        c['defaults_override'] = {q['n']: draw(_scalar_default(q['t']))}
    if kind == 'abstract':
        c['registered'] = draw(st.sampled_from([True, True, False]))
    # the documented idiom for container defaults: Optional[List[..]] = None (or Any = None)
    # with _yatiml_defaults = {'name': []} and a sweeten that removes defaulted attributes
    if kind == 'regular' and draw(st.integers(0, 5)) == 0:
        free = [nm for nm in ('tags', 'table') if nm not in used and nm not in [q['n'] for q in params]]
        if free:
            params.append({'n': free[0], 'd': {'v': None}, 't': draw(st.sampled_from(
                [['opt', ['list', 'str']], ['opt', ['list', 'any']], ['opt', ['dict', 'any']],
                 ['opt', ['dict', 'any']], ['opt', ['dict', 'int']]]))})
    cparams = [q for q in params if q['d'] is not None and q['d']['v'] is None
               and (q['t'][1][0] if isinstance(q['t'], list) and isinstance(q['t'][1], list) else None)
               in ('list', 'dict')]
    container_defaults = False
    if cparams and draw(st.integers(0, 1)) == 0:
        ov = dict(c.get('defaults_override') or {})
        for q in cparams:
            ov[q['n']] = [] if q['t'][1][0] == 'list' else {}
        c['defaults_override'] = ov
        container_defaults = True
    if allow_hooks:
        h = draw(st.integers(0, 9))
        if container_defaults and h not in (0, 1) and draw(st.integers(0, 3)) != 0:
            h = 3
        if h == 0:
            c['sav'] = 'dashes'
            if draw(st.booleans()):
                c['swe'] = 'dashes'
        elif h == 1 and params:
            c['sav'] = {'from': 'alias_' + params[0]['n'], 'to': params[0]['n']}
            if draw(st.booleans()):
                c['swe'] = {'from': params[0]['n'], 'to': 'alias_' + params[0]['n']}
        elif h == 2:
            c['sav'] = 'raise'
        elif h == 5 and params:
            c['sav'] = {'rebuild': draw(st.sampled_from([q['n'] for q in params]))}
        elif h == 8 and any(q['t'] in ('any', ['dict', 'any'], ['list', 'any']) for q in params):
            q = draw(st.sampled_from([q for q in params
                                      if q['t'] in ('any', ['dict', 'any'], ['list', 'any'])]))
            c['sav'] = {'struct': 'seq' if q['t'] == ['list', 'any'] else draw(
                st.sampled_from(['index', 'index', 'seq'])), 'attr': q['n']}
        elif h in (6, 7):
            # a class whose savorize fills in defaults carries a float or a bool default
            # among them (1.0 / True and 0.0 / False are the values that may be confused)
            free = [nm for nm in ('gain', 'flag', 'ratio', 'enabled') if nm not in used
                    and nm not in [q['n'] for q in params]]
            if free:
                if draw(st.booleans()):
                    extra = {'n': free[0], 't': 'float', 'd': {'v': draw(st.sampled_from([0.0, 1.0]))}}
                else:
                    extra = {'n': free[0], 't': 'bool', 'd': {'v': draw(st.booleans())}}
                params.append(extra)
                dparams = dparams + [extra]
            # fill in every omitted scalar default (1.0 == True and 0.0 == False: values
            # that collide in an untyped cache; the filled value may differ from the
            # Python default, as when a file format has its own defaults)
            fill = []
            for q in dparams:
                val = q['d']['v']
                if q['t'] == 'float':
                    val = draw(st.sampled_from([0.0, 1.0, val]))
                fill.append([q['n'], val])
            c['sav'] = {'fill': fill}
        elif h in (3, 4) and (any(p['d'] is not None for p in params) or c['base']):
            c['swe'] = 'defaults'
        elif h == 9:
            # (1.0 / True, 0.0 / False, 0.0 / -0.0, 1 / True: equal values of different types)
            c['swe'] = {'mark': draw(st.sampled_from([True, False, 1.0, 0.0, -0.0, 1, 0, 'v1', None]))}
        c['rec'] = draw(st.integers(0, 7)) == 0
        c['attrs'] = draw(st.integers(0, 9)) == 0
    if params and not c.get('dc') and not c.get('swe') and draw(st.integers(0, 9 if not c['extra'] else 3)) == 0:
        # a private attribute: dumpable only through _yatiml_attributes
        own = [q['n'] for q in params]
        c['hidden'] = draw(st.sampled_from(own))
        if allow_hooks and draw(st.booleans()):
            c['attrs'] = True
    return c


@st.composite
def specs(draw, uid, max_classes=5, allow_hooks=True):
    n = draw(st.integers(1, max_classes))
    names = draw(st.permutations(CLASS_NAMES))[:n]
    classes = []
    for name in names:
        classes.append(draw(class_specs(name, classes, allow_hooks)))
    return {'uid': uid, 'classes': classes}


# ------------------------------------------------------------------ values

def concrete_candidates(spec, name):
    """Registered, instantiable classes at a position typed `name`."""
    out = []
    for c in list(spec.get('imported') or ()) + spec['classes']:
        if c['kind'] not in ('regular',):
            continue
        # is c == name or a descendant of it?
        cur = c
        while cur is not None:
            if cur['name'] == name:
                out.append(c)
                break
            cur = U.class_by_name(spec, cur['base']) if cur.get('base') else None
    return out


def _mentions_class(t):
    if isinstance(t, str):
        return False
    if t[0] == 'cls':
        return True
    if t[0] == 'dictk':
        return True     # the key type is a (string-like) class
    return any(_mentions_class(x) for x in t[1:])


def strs():
    return st.one_of(
        st.sampled_from(TRICKY_STR),
        st.text(alphabet=st.characters(
            blacklist_categories=('Cs',), max_codepoint=0x2fff), max_size=12),
        st.text(alphabet='abcxyz_- ', min_size=1, max_size=8))


# keys an Any-typed position may legally hold besides strings: YAML writes all of
# them (a tuple as a complex key), a load builds the scalar ones and rejects the tuple
ODD_KEYS = [{'k': 'int', 'v': 1}, {'k': 'int', 'v': 7}, {'k': 'float', 'v': '1.5'}, {'k': 'none'},
            {'k': 'bool', 'v': True},
            {'k': 'tuple', 'v': [{'k': 'int', 'v': 1}, {'k': 'int', 'v': 2}]},
            {'k': 'tuple', 'v': [{'k': 'int', 'v': 3}, {'k': 'str', 'v': 'a'}]},
            {'k': 'tuple', 'v': []}]


@st.composite
def _plain_dicts(draw, sub, odd):
    n = draw(st.integers(0, 3))
    out, seen = [], set()
    for _ in range(n):
        if odd and draw(st.integers(0, 2)) != 0:
            key = draw(st.sampled_from(ODD_KEYS))
        else:
            key = draw(st.sampled_from(['k1', 'k2', 'a b', '\u00e9', '1']))
        if repr(key) in seen:
            continue
        seen.add(repr(key))
        out.append([key, draw(sub)])
    return {'k': 'dict', 'v': out}


def plain_data(depth=2, odd=None):
    """Plain data for Any-typed positions.  odd=None: one dict in eight (per level)
    uses non-string keys; odd=True: most keys are non-string (ints, None, tuples)."""
    leaf = st.one_of(
        st.builds(lambda v: {'k': 'int', 'v': v}, st.integers(-10 ** 6, 10 ** 6)),
        st.builds(lambda v: {'k': 'str', 'v': v}, strs()),
        st.builds(lambda v: {'k': 'bool', 'v': v}, st.booleans()),
        st.just({'k': 'none'}),
        st.builds(lambda v: {'k': 'float', 'v': repr(v)},
                  st.floats(allow_nan=True, allow_infinity=True, width=64)))
    if depth <= 0:
        return leaf
    if depth >= 2 and odd is None:
        # (as TRICKY_STR for strings: a few fixed structures among the random ones)
        return st.one_of([_plain_data(depth, odd)] * 9 + [st.sampled_from(TRICKY_DATA)])
    return _plain_data(depth, odd)


def _T(*xs):
    return {'k': 'tuple', 'v': [{'k': 'int', 'v': x} if isinstance(x, int) else {'k': 'str', 'v': x} for x in xs]}


def _Sv(x):
    return {'k': 'str', 'v': x}


# plain data that YAML writes without complaint and that a load cannot (fully) build,
# or that is built in several deferred steps: complex keys at two levels, a complex key
# after a nested mapping, empty containers inside containers
TRICKY_DATA = [
    {'k': 'dict', 'v': [['by_pair', {'k': 'dict', 'v': [[_T(1, 2), _Sv('a')]]}], [_T(3, 4), _Sv('b')]]},
    {'k': 'list', 'v': [{'k': 'list', 'v': [{'k': 'dict', 'v': [[_T(1, 2), _Sv('a')]]}]},
                        {'k': 'dict', 'v': [[_T(3, 4), _Sv('b')]]}]},
    {'k': 'dict', 'v': [[_T(1, 2), {'k': 'dict', 'v': [[_T(3, 4), _Sv('x')]]}]]},
    {'k': 'dict', 'v': [['a', {'k': 'dict', 'v': []}], ['b', {'k': 'list', 'v': [{'k': 'list', 'v': []}]}]]},
    {'k': 'dict', 'v': [[{'k': 'int', 'v': 1}, _Sv('one')], ['1', _Sv('also one')]]},
    {'k': 'list', 'v': [_T(), _T(1), {'k': 'dict', 'v': [[{'k': 'none'}, {'k': 'none'}]]}]},
]


def _plain_data(depth, odd):
    leaf = plain_data(0)
    sub = plain_data(depth - 1, odd)
    dicts = _plain_dicts(sub, False)
    if odd:
        dicts = _plain_dicts(sub, True)
    elif odd is None:
        dicts = st.one_of([_plain_dicts(sub, False)] * 7 + [_plain_dicts(plain_data(depth - 1, True), True)])
    return st.one_of(
        leaf, leaf,
        st.builds(lambda v: {'k': 'list', 'v': v}, st.lists(sub, max_size=3)),
        dicts)


@st.composite
def values(draw, spec, t, depth=2):
    if isinstance(t, str):
        if t == 'int':
            return {'k': 'int', 'v': draw(st.one_of(
                st.integers(-100, 100), st.integers(-10 ** 12, 10 ** 12)))}
        if t == 'str':
            if draw(st.integers(0, 7)) == 0:
                # plain scalars that PyYAML's YAML 1.1 resolvers read as bool or float
                # and yatiml's patched resolvers read as strings
                return {'k': 'str', 'plain': True, 'v': draw(st.sampled_from(YAML11_STR_WORDS))}
            return {'k': 'str', 'v': draw(strs())}
        if t == 'float' and draw(st.integers(0, 7)) == 0:
            sp = draw(st.sampled_from(['1e5', '1E3', '-2e-2', '+6e+2', '12e03']))
            return {'k': 'float', 'v': repr(float(sp)), 'sp': sp}
        if t == 'float':
            f = draw(st.one_of(
                st.sampled_from([0.0, 1.5, -2.25, 1e20, 1e-7, float('inf'), float('-inf'), float('nan')]),
                st.floats(allow_nan=False, width=64)))
            return {'k': 'float', 'v': repr(f)}
        if t == 'bool':
            return {'k': 'bool', 'v': draw(st.booleans())}
        if t == 'date':
            return {'k': 'date', 'v': draw(st.dates()).isoformat()}
        if t == 'path':
            return {'k': 'path', 'v': draw(st.sampled_from(
                ['a/b', '/abs/x.txt', 'rel', '.', '../up', 'sp ace/é']))}
        if t in ('any', 'untyped'):
            return draw(plain_data(1 if depth <= 1 else 2))
        raise AssertionError(t)
    k = t[0]
    if k == 'opt':
        if draw(st.integers(0, 2)) == 0:
            return {'k': 'none'}
        return draw(values(spec, t[1], depth))
    if k == 'list':
        n = draw(st.integers(0, 3 if depth > 0 else 1))
        return {'k': 'list', 'v': [draw(values(spec, t[1], depth - 1)) for _ in range(n)]}
    if k == 'dict':
        n = draw(st.integers(0, 3 if depth > 0 else 1))
        keys = draw(st.permutations(['k1', 'k2', 'key three', 'é', 'z9']))[:n]
        return {'k': 'dict', 'v': [[key, draw(values(spec, t[1], depth - 1))] for key in keys]}
    if k == 'dictk':
        n = draw(st.integers(0, 3 if depth > 0 else 1))
        keys = draw(st.permutations(['ka', 'kb', 'key three', 'é', 'z9']))[:n]
        return {'k': 'dict', 'v': [[{'k': 'ustr', 'c': t[1], 'v': key},
                                    draw(values(spec, t[2], depth - 1))] for key in keys]}
    if k == 'union':
        m = draw(st.sampled_from(t[1:]))
        return draw(values(spec, m, depth))
    if k == 'cls':
        c = U.class_by_name(spec, t[1])
        if c['kind'] == 'enum':
            return {'k': 'enum', 'c': c['name'], 'm': draw(st.sampled_from(c['members']))}
        if c['kind'] in ('ustr', 'ystr'):
            if c.get('validate') == 'alpha' and draw(st.integers(0, 4)) != 0:
                s = draw(st.text(alphabet='abcXYZé', min_size=1, max_size=6))
            else:
                s = draw(strs())
            return {'k': 'ustr', 'c': c['name'], 'v': s}
        cands = concrete_candidates(spec, c['name'])
        if not cands:
            # abstract without concrete descendants: nothing conforming exists
            return {'k': 'dict', 'v': []}
        if depth <= 0:
            # a subclass may hold attributes of its base's type: do not let the
            # value grow without bound - prefer candidates that nest no further
            simple = [x for x in cands
                      if not any(_mentions_class(q['t']) for q in U.all_params(spec, x)
                                 if q['d'] is None)]
            if simple:
                cands = simple
            elif depth < -2:
                return {'k': 'dict', 'v': []}
        cc = draw(st.sampled_from(cands))
        attrs = []
        ov = cc.get('defaults_override') or {}
        for p in U.all_params(spec, cc):
            if isinstance(ov.get(p['n']), (list, dict)):
                # an attribute with a container default: equal to it, absent, holding one of
                # the tricky structures (when its items are Any-typed), or anything
                r = draw(st.integers(0, 3))
                kd = 'list' if isinstance(ov[p['n']], list) else 'dict'
                if r == 0:
                    attrs.append([p['n'], {'k': kd, 'v': []}])
                    continue
                if r == 1 and p['t'][1][1] == 'any':
                    x = draw(st.sampled_from(TRICKY_DATA))
                    attrs.append([p['n'], {'k': kd, 'v': [x] if kd == 'list' else [['k1', x]]}])
                    continue
            if p['d'] is not None and draw(st.booleans()):
                continue
            attrs.append([p['n'], draw(values(spec, p['t'], depth - 1))])
        v = {'k': 'obj', 'c': cc['name'], 'a': attrs}
        if cc.get('extra'):
            n = draw(st.integers(0, 2))
            keys = draw(st.permutations(['ex0', 'ex1', 'zeta', 'alpha']))[:n]
            v['x'] = [[k, draw(plain_data(1))] for k in keys]
        return v
    raise AssertionError(t)


# --------------------------------------------------------------- documents

def tree_nodes(tree):
    """All nodes of a document tree in pre-order, with (parent, slot) info."""
    out = []

    def walk(n, parent, slot):
        out.append((n, parent, slot))
        if n['t'] == 'seq':
            for i, x in enumerate(n['v']):
                walk(x, n, ('seq', i))
        elif n['t'] == 'map':
            for i, (k, v) in enumerate(n['v']):
                walk(k, n, ('key', i))
                walk(v, n, ('val', i))
    walk(tree, None, None)
    return out


CORRUPTION_KINDS = ['drop_key', 'retype', 'add_key', 'tag', 'dup_key', 'dashify',
                    'alias', 'reverse', 'nest', 'empty', 'hoist_alias', 'hoist_alias']
TAGS = ['!A', '!B', '!C', '!D', '!E', '!F', '!Unknown', '!!str', '!!int', '!!map',
        '!!python/object:os.system', '!Path', '!!timestamp']
RETYPE_TEXTS = ['abc', '12', '1.5', 'true', 'null', '', '2001-02-03', 'yes', '0x1F',
                '.inf', '~']


@st.composite
def corruptions(draw):
    kind = draw(st.sampled_from(CORRUPTION_KINDS))
    c = {'kind': kind, 'at': draw(st.integers(0, 40))}
    if kind == 'retype':
        c['text'] = draw(st.sampled_from(RETYPE_TEXTS))
    elif kind == 'add_key':
        c['key'] = draw(st.sampled_from(['zz', 'name', 'x', 'first-name', 'poison', '1', 'alias_x']))
        c['text'] = draw(st.sampled_from(RETYPE_TEXTS))
    elif kind == 'tag':
        c['tag'] = draw(st.sampled_from(TAGS))
    elif kind == 'alias':
        c['to'] = draw(st.integers(0, 40))
    return c


def apply_corruption(tree, c):
    """Returns a corrupted deep copy of tree (never fails)."""
    tree = copy.deepcopy(tree)
    nodes = tree_nodes(tree)
    kind = c['kind']
    maps = [n for n, _, _ in nodes if n['t'] == 'map']
    if kind == 'drop_key':
        ms = [m for m in maps if m['v']]
        if ms:
            m = ms[c['at'] % len(ms)]
            del m['v'][c['at'] % len(m['v'])]
    elif kind == 'retype':
        ss = [(n, p, s) for n, p, s in nodes if n['t'] == 's' and (s is None or s[0] != 'key')]
        if ss:
            n, _, _ = ss[c['at'] % len(ss)]
            n['v'] = c['text']
            n['q'] = False
    elif kind == 'add_key':
        if maps:
            m = maps[c['at'] % len(maps)]
            m['v'].append([U.S(c['key']), U.S(c['text'])])
    elif kind == 'tag':
        n, _, _ = nodes[c['at'] % len(nodes)]
        if n['t'] != 'alias':
            n['tag'] = c['tag']
    elif kind == 'dup_key':
        ms = [m for m in maps if m['v']]
        if ms:
            m = ms[c['at'] % len(ms)]
            m['v'].append(copy.deepcopy(m['v'][c['at'] % len(m['v'])]))
    elif kind == 'dashify':
        ks = [n for n, p, s in nodes if s is not None and s[0] == 'key' and '_' in n['v']]
        if ks:
            n = ks[c['at'] % len(ks)]
            n['v'] = n['v'].replace('_', '-')
    elif kind == 'alias':
        cands = [(n, p, s) for n, p, s in nodes if p is not None and s[0] != 'key']
        if len(cands) >= 2:
            i = c['at'] % len(cands)
            j = c['to'] % len(cands)
            if i != j:
                a, b = min(i, j), max(i, j)
                src = cands[a][0]
                dst, parent, slot = cands[b]
                # do not alias a node into its own subtree
                if src['t'] != 'alias' and dst not in [x for x, _, _ in tree_nodes(src)]:
                    src['anchor'] = 'a{}'.format(a)
                    al = {'t': 'alias', 'v': src['anchor']}
                    if slot[0] == 'seq':
                        parent['v'][slot[1]] = al
                    else:
                        parent['v'][slot[1]][1] = al
    elif kind == 'hoist_alias':
        # "define on first use": a mapping nested inside an item of the top-level
        # collection is anchored there and appears again, by alias, as a later item of
        # its own (PyYAML then hands the parent an object whose __init__ has not run yet)
        if tree['t'] in ('seq', 'map') and tree['v']:
            items = tree['v'] if tree['t'] == 'seq' else [v for _, v in tree['v']]
            cands = []
            for it in items:
                if it['t'] == 'map':
                    for _, v in it['v']:
                        if v['t'] == 'map':
                            cands.append(v)
                        elif v['t'] == 'seq':
                            cands.extend(x for x in v['v'] if x['t'] == 'map')
            if cands:
                src = cands[c['at'] % len(cands)]
                if not src.get('anchor'):
                    src['anchor'] = 'h{}'.format(c['at'] % 7)
                al = {'t': 'alias', 'v': src['anchor']}
                if tree['t'] == 'seq':
                    tree['v'].append(al)
                else:
                    tree['v'].append([U.S('zz_hoisted'), al])
    elif kind == 'reverse':
        ms = [m for m in maps if len(m['v']) > 1]
        if ms:
            m = ms[c['at'] % len(ms)]
            m['v'].reverse()
    elif kind == 'nest':
        n, p, s = nodes[c['at'] % len(nodes)]
        if p is not None and s[0] != 'key':
            wrapped = {'t': 'seq', 'v': [copy.deepcopy(n)], 'tag': None}
            if s[0] == 'seq':
                p['v'][s[1]] = wrapped
            else:
                p['v'][s[1]][1] = wrapped
    elif kind == 'empty':
        n, p, s = nodes[c['at'] % len(nodes)]
        if n['t'] in ('seq', 'map'):
            n['v'] = []
    return tree


@st.composite
def doc_texts(draw, spec, t, p_corrupt=0.5, max_corrupt=2):
    """(document text, value, list of corruptions) for a position typed t."""
    v = draw(values(spec, t))
    tree = U.value_to_tree(spec, v)
    cs = []
    if draw(st.floats(0, 1)) < p_corrupt:
        n = draw(st.integers(1, max_corrupt))
        for _ in range(n):
            c = draw(corruptions())
            cs.append(c)
            tree = apply_corruption(tree, c)
    style = draw(st.sampled_from(['block', 'block', 'flow']))
    text = U.write_doc(tree, style)
    m = draw(st.integers(0, 19))
    if m == 0 and text:
        cut = draw(st.integers(0, len(text)))
        text = text[:cut]
        cs.append({'kind': 'truncate', 'at': cut})
    elif m == 1:
        pos = draw(st.integers(0, len(text)))
        ch = draw(st.sampled_from([':', '-', '[', '}', '\t', '"', '&', '*x', '? ', '\x01', '%']))
        text = text[:pos] + ch + text[pos:]
        cs.append({'kind': 'insert', 'at': pos, 'ch': ch})
    return text, v, cs


def root_types(spec):
    """Reasonable document types for a spec (texprs)."""
    out = []
    for c in list(spec.get('imported') or ()) + spec['classes']:
        if c.get('registered', True):
            out.append(['cls', c['name']])
    names = [c['name'] for c in spec['classes'] if c.get('registered', True)]
    if names:
        out.append(['list', ['cls', names[0]]])
        out.append(['dict', ['cls', names[-1]]])
        if len(names) > 1:
            out.append(['union', ['cls', names[0]], ['cls', names[1]]])
    for c in spec['classes']:
        if c.get('registered', True) and c['kind'] in ('enum', 'ustr', 'ystr'):
            out.append(['union', 'str', ['cls', c['name']]])
            break
    out.append('any')
    out.append(['dict', 'int'])
    return out


def uses_only_registered(spec, t):
    if isinstance(t, str):
        return True
    if t[0] == 'cls':
        return U.class_by_name(spec, t[1]).get('registered', True)
    if t[0] == 'dictk':
        return (U.class_by_name(spec, t[1]).get('registered', True)
                and uses_only_registered(spec, t[2]))
    return all(uses_only_registered(spec, x) for x in t[1:])
