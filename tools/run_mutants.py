#!/venv/bin/python
"""Sensitivity / specificity suite.

  run_mutants.py [--tests] [--wall S] [name-prefix ...]

For every mutants/<Cxx>_*.patch (and seeded/<id>/patch.diff with meta.json) whose
name starts with one of the prefixes: copy /repo's working tree to a scratch
directory under $TMPDIR, apply the patch, optionally run the repository's test
suite there (--tests; must pass: a mutant the tests catch is worthless), run the
property's quick check with VERIF_REPO pointing at the copy, and report whether
the check raised a VIOLATION.  mutants/benign_*.patch must stay silent (exit 0).
The scratch copy is removed afterwards.  Nothing in /repo is touched.
"""
import glob
import json
import os
import shutil
import subprocess
import sys
import tempfile
import time

VERIF = os.path.dirname(os.path.dirname(os.path.abspath(__file__)))


def scratch_copy(patch):
    d = tempfile.mkdtemp(prefix='yatiml_mut.', dir=os.environ.get('TMPDIR', '/tmp'))
    repo = os.path.join(d, 'repo')
    os.makedirs(repo)
    files = subprocess.check_output(
        ['git', 'ls-files', 'yatiml', 'tests', 'setup.py', 'setup.cfg', 'pytest.ini'],
        cwd='/repo', text=True).split()
    for f in files:
        dst = os.path.join(repo, f)
        os.makedirs(os.path.dirname(dst), exist_ok=True)
        shutil.copy2(os.path.join('/repo', f), dst)
    subprocess.check_call(['git', 'init', '-q', '.'], cwd=repo)
    p = subprocess.run(['git', 'apply', '--whitespace=nowarn', patch], cwd=repo,
                       capture_output=True, text=True)
    if p.returncode != 0:
        shutil.rmtree(d)
        raise RuntimeError('patch does not apply: {}\n{}'.format(patch, p.stderr))
    return d, repo


def main():
    args = sys.argv[1:]
    run_tests = '--tests' in args
    if run_tests:
        args.remove('--tests')
    wall = None
    if '--wall' in args:
        i = args.index('--wall')
        wall = args[i + 1]
        del args[i:i + 2]
    prefixes = args or ['']
    items = []
    for p in sorted(glob.glob(os.path.join(VERIF, 'mutants', '*.patch'))):
        name = os.path.basename(p)[:-6]
        benign = name.startswith('benign_')
        props = name.split('_')[1 if benign else 0].split('+')
        items.append((name, p, props, benign))
    for m in sorted(glob.glob(os.path.join(VERIF, 'seeded', '*', 'meta.json'))):
        meta = json.load(open(m))
        if meta.get('skip'):
            continue    # recorded but not a valid change for its property (see its note)
        name = 'seeded_' + os.path.basename(os.path.dirname(m))
        items.append((name, os.path.join(os.path.dirname(m), 'patch.diff'),
                      [meta['property']] + list(meta.get('also', [])), False))
    items = [it for it in items if any(it[0].startswith(px) for px in prefixes)]
    results = []
    for name, patch, props, benign in items:
        try:
            d, repo = scratch_copy(patch)
        except RuntimeError as e:
            print('{:<44} PATCH DOES NOT APPLY: {}'.format(name, str(e).splitlines()[-1]), flush=True)
            results.append((name, '-', None, False, 0, None, 'patch does not apply'))
            continue
        try:
            tests = None
            if run_tests:
                p = subprocess.run(
                    ['/venv/bin/python', '-m', 'pytest', '-q', '-p', 'no:cacheprovider',
                     '-x', '--no-cov'], cwd=repo, capture_output=True, text=True, timeout=900)
                tail = [ln for ln in p.stdout.splitlines() if 'passed' in ln or 'failed' in ln]
                tests = (p.returncode == 0, tail[-1] if tail else p.stdout[-200:])
            for prop in props:
                env = dict(os.environ, VERIF_REPO=repo,
                           VERIF_EVIDENCE_DIR=os.path.join(d, 'evidence'),
                           VERIF_REPLAY_DIR=os.path.join(d, 'replays'))
                if wall:
                    env['VERIF_WALL_S'] = wall
                t0 = time.time()
                p = subprocess.run(
                    ['/venv/bin/python', os.path.join(VERIF, 'run_check.py'), prop],
                    env=env, capture_output=True, text=True, timeout=3600)
                dt = time.time() - t0
                viol = [ln for ln in p.stdout.splitlines() if ln.startswith('VIOLATION')]
                detail = ''
                for ln in p.stdout.splitlines():
                    if ln.startswith('  {"oracle"'):
                        detail = ln[:300]
                        break
                expect = 0 if benign else 1
                ok = p.returncode == expect
                results.append((name, prop, p.returncode, ok, round(dt, 1), tests, detail))
                print('{:<44} {} rc={} {} {:.0f}s tests={} {}'.format(
                    name, prop, p.returncode, 'OK ' if ok else 'MISS' if not benign else 'FALSE-ALARM',
                    dt, tests, detail), flush=True)
                if p.returncode == 2:
                    print(p.stdout[-1500:])
                    print(p.stderr[-1500:])
        finally:
            shutil.rmtree(d, ignore_errors=True)
    bad = [r for r in results if not r[3]]
    print('{} of {} as expected'.format(len(results) - len(bad), len(results)))
    return 1 if bad else 0


if __name__ == '__main__':
    sys.exit(main())
