#!/venv/bin/python
"""mk_mutant.py <name> <file relative to /repo> <<< JSON [[old, new], ...]
Writes /verif/mutants/<name>.patch (unified diff against /repo's working tree)."""
import difflib, json, sys
name, rel = sys.argv[1], sys.argv[2]
pairs = json.load(sys.stdin)
src = open('/repo/' + rel).read()
dst = src
for old, new in pairs:
    assert dst.count(old) == 1, (name, 'pattern occurs %d times' % dst.count(old), old)
    dst = dst.replace(old, new)
diff = difflib.unified_diff(src.splitlines(True), dst.splitlines(True), 'a/' + rel, 'b/' + rel)
open('/verif/mutants/%s.patch' % name, 'w').write(''.join(diff))
print('wrote', name)
