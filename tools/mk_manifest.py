#!/venv/bin/python
"""Regenerates /verif/MANIFEST.json from the tables below and validates it."""
import json, subprocess, sys

NA = {
"C01":"pure function of (class model, document): nothing for a scheduler or fault injector to vary (DESIGN.md §0, §2)",
"C02":"needs an independent reference semantics over (model, document) pairs: differential / bounded-exhaustive input testing, not simulation",
"C03":"pure; the only nearby nondeterminism (address-ordered set of candidate classes) affects message wording only and cannot be steered by a scheduler",
"C04":"pure; tag injection is an input space, the constructor-call log is a deterministic function of the document",
"C05":"pure function of (model, value); dump-then-load has no in-flight state and no I/O in the statement",
"C07":"pure function of (value, indent, ensure_ascii); natural decider is exhaustive shape enumeration (model checking), excluded by this task's technique; sink side is decided under C12",
"C09":"universal statement over strings; automata equivalence / enumeration, no schedule, fault or history in it",
"C10":"hook-calling protocol is a deterministic function of (hierarchy, document); its one fault clause (SeasoningError -> RecognitionError) is covered by C08's injection",
"C13":"metamorphic relations over inputs and models; pure",
"C15":"each transform is a pure function of one node; inverse law is a two-call composition",
"C16":"pure predicates on (node, arguments)",
"C17":"pure relation between corruption site and message text",
"C18":"aliasing inside one deterministic call; stack exhaustion on cyclic aliases is input-driven, not an injectable fault",
}
PENDING = {}
PY = "/venv/bin/python /verif/run_check.py"
CHECKS = {
"C08": dict(engine="cbfault", category="fault_enumeration", design_ref="DESIGN.md §6",
  text="Callback-failure clause of C08 only. For each seeded (class model, root type, document, source kind) the load is run fault-free to count callback invocations, then once per invocation index x applicable exception variant with that single failure injected at the first statement of the generated __init__ / string-like constructor / _yatiml_savorize. Oracle: the load returns or raises yatiml.RecognitionError / yaml.YAMLError; anything else escaping is a violation with signature (site kind, injected class, argument shape, escaped class). Enumeration of fault points is complete per case (deterministically capped for large documents); the cases themselves are a seeded sample. Injected exceptions: 17 classes (ValueError ... StopIteration, UnicodeDecodeError, a user-defined class, SyntaxError with odd location fields, FileNotFoundError(errno, msg, file), ExceptionGroup, SeasoningError, RecognitionError) x 10 argument shapes (message, none, int, two, braces, percent, non-ASCII/NUL, 20 kB, an exception object, chained cause). Class models include hierarchies whose base-typed attributes hold subclass instances, dataclasses, string-like dict keys, scalar-first overlapping unions, and savorize hooks that rename, rebuild attributes as hand-built mark-less nodes, or fill in defaults. User exception classes whose constructors cannot be called as type(e)(message): two required arguments (a ValueError subclass, the user's own subclasses of yatiml.RecognitionError and yatiml.SeasoningError), keyword-only arguments with an own __str__, yaml.MarkedYAMLError.",
  note="Trusted: the generated class models are representative of user classes; a fault at the first statement stands for a fault anywhere in the callback; savorize hooks raise only SeasoningError (the documented protocol). Not decided: the clause over arbitrary input texts (observations are listed in the evidence, never raised).",
  technique="deterministic fault injection at a callback seam, enumerated over every callback invocation; Hypothesis as seeded case generator/shrinker"),
}
CHECKS["C12"] = dict(engine="iosim", category="fault_enumeration", design_ref="DESIGN.md §5",
  text="For each seeded (class model, type, document) the load is performed from a str (reference), a Path on a simulated mount (patched io.open; real io stack on a stub raw device), StringIO, BytesIO, real files, TextIOWrapper/BufferedReader over the stub device and duck-typed read(n) streams, under chunk schedules that include a split at every offset (every multi-byte interior, CR|LF and 4096/8192 block boundary when the document is large); all canonical outcomes must be equal. For each seeded (dumper, value) every indent x ensure_ascii is dumped to a str path, Path (fresh and pre-existing), StringIO, duck sinks with/without flush, a real file and TextIOWrapper over the stub device with short raw writes; sink content must equal the dumps text exactly. Separately, one read/write/open error or EINTR per run is injected at enumerated offsets with a deliberately relaxed oracle (may raise; if it returns, value/text must be right). The sim mount is a file namespace (open, replace/rename/unlink, real-file mirroring), so temp-file-and-rename implementations work on it; documents include block-crossing long scalars, BOMs, first characters in U+F000..U+FFFF, CR/CRLF, and the name of an existing file as document text. The target file of a dump may already hold unrelated content or an earlier version of the very text (the text followed by more, a prefix of it, the text itself, same length with other content). Binary streams also in UTF-16 (both byte orders) and UTF-8 with BOM. Files on the mount are named plainly, through a sub-directory, through a symlinked directory followed by '..' (the mount resolves names as the OS does), or with spaces, '~', glob characters and non-ASCII. One known finding is matched by a specific signature (known_findings.json).",
  note="Trusted: UTF-8 locale; the stub raw device and duck streams honour the RawIOBase / read(n) / write(s) contracts; message normalisation (source names, str-only snippets, byte positions, CR vs LF spelling) does not hide a real difference. Not decided: other locales, Windows newline translation, durability of partially written files.",
  technique="deterministic I/O simulation: stub raw device and duck streams under enumerated chunk schedules and single injected I/O faults; Hypothesis as seeded case generator/shrinker")
CHECKS["C14"] = dict(engine="nodemodel", category="exploration", design_ref="DESIGN.md §7",
  text="Seeded operation histories (up to 30, thorough 60 operations) on real yaml node trees through several yatiml.Node handles (root, attribute values, sequence items, two handles on one node, value nodes shared between keys) are executed step by step against an ordered-map / typed-scalar reference model written from the docstrings: after every operation the return value or exception class and the plain view of every live handle must equal the model's. A yaml.Node given to set_attribute must be stored by identity. Documents include the other core-schema tags (value '=', merge '<<', !!binary, !!set, !!omap, !!pairs). get_value on parsed scalars is compared with PyYAML's own scalar constructors over a YAML 1.1/1.2 spelling alphabet; remove_attributes_with_default_values is checked against a MUST-remove / MUST-keep band over (default, value) pairs incl. inf/nan and numeric strings, must never raise, and is also run after a sibling class sharing the __init__ was sweetened. Classes given to it may define their own __new__(cls, *args, **kwargs) or have a metaclass with __call__ (their parameters still are those of __init__). Keys include Unicode twins (NFC/NFD, MICRO SIGN/mu, ligature, fullwidth) that are distinct strings. A failure that needs an earlier case of the same process is replayed with that case. No fault or schedule dimension exists for yatiml.Node and none is pretended.",
  note="Trusted: the reference model (two-sided where the documentation is). Operations are applied only where the docstrings allow them, on mappings with distinct scalar keys. A seeded sample of histories, not an exhaustive enumeration.",
  technique="model-based checking of seeded operation histories against an executable reference model (sequential refinement); Hypothesis as seeded plan generator/shrinker")
CHECKS["C11"] = dict(engine="world", category="exploration", design_ref="DESIGN.md §4",
  text="Seeded worlds: 1-3 class-model specs (same-named classes across specs), shared load/dump/JSON functions, K in 1..4 client threads with operation lists (loads from several source kinds, dumps to several sinks, function creation, plain-PyYAML probes, gc), and faults attached to operations (callback exception, cancellation at the n-th yield point, read/write error). Each world runs in a child forked from a pristine worker under a baton scheduler: real threads, pre-empted only at sys.settrace line/opcode events in yatiml, PyYAML and generated classes and at seam calls, the schedule tape deciding every switch (PCT-like change points, geometric run lengths, fixed quanta, and schedules derived from a profiling run that park a thread right after it wrote call-outliving state). Workload extras: functions over subsets of one class set and sibling functions, twin creation of the very same function by two threads, sequential histories repeated in a tight loop (40-60 times, thorough up to 16 000 calls), failed calls' exceptions kept alive by the caller, stride single-pre-emption sweeps. Churn scenarios: functions created, used, dropped and collected over same-named class sets, and the class source itself executed anew each round (new class objects and typing aliases, the old ones die; 160-240 rounds, thorough up to 1500). Class models include untyped parameters, container defaults through _yatiml_defaults with a sweeten that removes defaulted attributes, Any-typed data with non-string and tuple keys. Re-entrant use: at a callback invocation of one operation in eight the user's code performs another load/dump operation itself (recorded and compared as an operation of its own; the outer operation's reference never contains it). Pairs of load functions over identical supporting classes with different result types. Loaded values are changed in place by the caller once recorded, so results handed out twice show. Oracles: every finished operation equals the same operation in a fresh pristine child in which only its own function exists (value with sharing structure, callback trace, exception class and message tokens, sink content); PyYAML's and yatiml's base registries equal their import-time fingerprint at quiescence and at every context switch; user classes (attributes, and the annotations/defaults/code of their methods) and dumped objects are unchanged; every class of the yaml package keeps its attributes and methods; process-wide settings that change what later calls return (recursion limit, int-digits limit, warning filters, cwd, umask, locale, open) are restored, and the recursion and int-digits limits are also compared at every context switch; a broad behaviour probe of plain PyYAML (documents, values, dump options, errors, the other loaders) equals its import-time result; no deadlock.",
  note="Trusted: pre-emption at source-line (knob: bytecode) granularity, C code atomic as under the GIL; canonical outcome comparison (value and callback trace, or exception class and message-token multiset); the pristine fork is a fresh process. A seeded sample of worlds and schedules, not an enumeration.",
  technique="deterministic simulation: seeded baton scheduler over real threads (sys.settrace yield points) with fault injection, history compared with an isolated fresh-process reference; Hypothesis as seeded plan generator/shrinker")
CHECKS["C06"] = dict(engine="dumphist", category="exploration", design_ref="DESIGN.md §4a",
  text="History clause of C06 only: 'Dumping never modifies the object graph, and repeated dumps of the same object give identical text.' The C11 simulator (pristine-fork worlds, baton scheduler, fault injection) is driven with a workload of dump functions (YAML and JSON, to strings, StringIO, duck sinks and paths on the sim mount) and 1-4 shared objects that are dumped 2-8 times per thread by 1-3 threads, with failing sweeteners / _yatiml_attributes, failing sinks and cancellations attached to some dumps. Oracles: the graph of every shared object (values and sharing structure) after every dump equals its graph before the first one; every dump equals the same dump in a fresh pristine process (so any two dumps of one object with the same function and options give identical text, whatever happened in between or concurrently).",
  note="Scope: the projection clauses of C06 (well-formed, tag-free, ordered, faithful) are pure functions of the value and are not decided. Trusted as for C11: line/bytecode pre-emption granularity, canonical comparison, pristine fork as fresh process. A seeded sample of worlds and schedules.",
  technique="deterministic simulation: seeded operation histories and thread schedules on shared objects with fault injection, compared with an isolated fresh-process reference and with object-graph snapshots; Hypothesis as seeded plan generator/shrinker")
ENGINES = {
 "cbfault": ("sim/engines/cbfault.py", ["C08"], "callback-seam fault enumeration over generated class models"),
 "iosim": ("sim/engines/iosim.py", ["C12"], "simulated raw device / duck streams: chunk schedules and I/O fault enumeration"),
 "nodemodel": ("sim/engines/nodemodel.py", ["C14"], "operation histories on yatiml.Node vs ordered-map reference model"),
 "dumphist": ("sim/engines/dumphist.py", ["C06"], "the C11 world simulator with a repeated-dump workload on shared objects; object-graph and fresh-process oracles"),
 "world": ("sim/engines/world.py", ["C11"], "baton-passing thread scheduler + call histories vs isolated fresh-process reference"),
}
def main():
    checks = []
    for pid, c in sorted(CHECKS.items()):
        checks.append({
          "property_id": pid,
          "quick_cmd": f"{PY} {pid} --tier quick",
          "thorough_cmd": f"{PY} {pid} --tier thorough",
          "evidence_file": f"/verif/evidence/{pid}.json",
          "replay_cmd_template": f"{PY} --replay {{path}}",
          "engine": c["engine"],
          "level_claimed": {"category": c["category"], "text": c["text"], "design_ref": c["design_ref"]},
          "level_note": c["note"],
          "technique": c["technique"],
        })
    na = dict(NA)
    for k, v in PENDING.items():
        if k not in CHECKS:
            na[k] = v
    m = {
     "version": 1,
     "setup_cmd": "/venv/bin/python -c \"import hypothesis, yaml\" 2>/dev/null || /venv/bin/pip install --no-index --find-links /opt/veriftools/wheels hypothesis",
     "hooks": {"guard": "YATIML_VERIF", "enable": "no hooks in /repo are needed: sys.settrace, call arguments, a patched open and generated user classes are the seams; checks import yatiml from /repo's working tree (editable install) at every run", "baseline_off_cmd": "cd /repo && /venv/bin/python -m pytest -ra -q -p no:cacheprovider --timeout=900", "source_commits": [], "add_only": True},
     "engines": [{"name": n, "path": p, "serves_properties": s, "kind_free_text": k} for n, (p, s, k) in ENGINES.items() if any(x in CHECKS for x in s)],
     "checks": checks,
     "notes": "Technique family: deterministic simulation with fault injection. Exit codes of every check: 0 held, 1 violation (VIOLATION line + replay file), 2 harness error (no verdict). Genuine defects found and repaired are listed in known_findings.json (status fixed) and DESIGN.md.",
     "not_applicable": [{"property_id": k, "reason": v} for k, v in sorted(na.items())],
    }
    json.dump(m, open('/verif/MANIFEST.json', 'w'), indent=1)
    subprocess.check_call(['python3-vt', '-c', "import json,jsonschema; jsonschema.validate(json.load(open('/verif/MANIFEST.json')), json.load(open('/root/.vp/MANIFEST.schema.json'))); print('manifest valid')"])
if __name__ == '__main__':
    main()
