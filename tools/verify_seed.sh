#!/bin/bash
# usage: verify_seed.sh <worktree> <seed-id>
# Confirms a sub-agent's seeded change: tests pass with it, demo fails with it and passes without it.
# Stores patch.diff + demo.py under /verif/seeded/<seed-id>/ and prints a summary.
# (never uses `git stash`: the stash is shared by all worktrees of a repository)
set -u
WT=$1; ID=$2
OUT=/verif/seeded/$ID
mkdir -p $OUT
cd $WT || exit 2
git diff -- yatiml > $OUT/patch.diff
cp demo.py $OUT/demo.py
[ -f REPORT.md ] && cp REPORT.md $OUT/AGENT_REPORT.md
echo "patch lines: $(wc -l < $OUT/patch.diff)"; git diff --stat -- yatiml | tail -1
echo "--- tests with change"
timeout 600 /venv/bin/python -m pytest -q -p no:cacheprovider -x 2>&1 | grep -E "passed|failed|error" | tail -1
echo "--- demo with change"
timeout 300 /venv/bin/python demo.py > $OUT/demo_with.log 2>&1; echo "exit=$?"; tail -3 $OUT/demo_with.log
git apply -R $OUT/patch.diff || { echo "cannot revert"; exit 3; }
echo "--- demo without change"
timeout 300 /venv/bin/python demo.py > $OUT/demo_without.log 2>&1; echo "exit=$?"; tail -2 $OUT/demo_without.log
git apply $OUT/patch.diff
git status --short | head
rm -f cobertura.xml .coverage
