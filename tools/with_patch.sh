#!/bin/bash
# usage: with_patch.sh <patch file> <command...>
# Runs <command> with VERIF_REPO pointing at a scratch copy of /repo's working tree with the patch applied.
# The scratch copy lives under ${TMPDIR:-/tmp} and is removed afterwards.
set -u
PATCH=$(readlink -f "$1"); shift
D=$(mktemp -d "${TMPDIR:-/tmp}/yatiml_mut.XXXXXX")
trap 'rm -rf "$D"' EXIT
mkdir -p "$D/repo"
(cd /repo && git ls-files -z yatiml setup.py setup.cfg | xargs -0 cp --parents -t "$D/repo") || exit 2
(cd "$D/repo" && git init -q . && git apply --whitespace=nowarn "$PATCH") || { echo "PATCH DID NOT APPLY: $PATCH"; exit 3; }
VERIF_REPO="$D/repo" VERIF_EVIDENCE_DIR="$D/evidence" VERIF_REPLAY_DIR="$D/replays" "$@"
rc=$?
exit $rc
